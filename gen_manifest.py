#!/usr/bin/env python3
"""Regenerates MANIFEST.json from the table below (single source of truth)."""
import json, subprocess, os
HERE = os.path.dirname(os.path.abspath(__file__))
GO = "/root/go/pkg/mod/golang.org/toolchain@v0.0.1-go1.24.2.linux-amd64/bin/go"
hooks = subprocess.run(["git", "-C", "/repo", "log", "--format=%H %s"], capture_output=True, text=True).stdout.splitlines()
hook_commits = [l.split()[0] for l in hooks if " verif hooks:" in " " + l]

# id -> (technique, level text, level note, design ref)
CHECKS = {}
def add(pid, technique, text, note, ref):
    CHECKS[pid] = (technique, text, note, ref)

NOT_APPLICABLE = {}
LEVELS = {}

exec(open(os.path.join(HERE, "manifest_table.py")).read())

props = [json.loads(l)["id"] for l in open(os.path.join(HERE, "properties.jsonl"))]
checks = []
for pid in props:
    if pid not in CHECKS:
        continue
    technique, text, note, ref = CHECKS[pid]
    checks.append({
        "property_id": pid,
        "quick_cmd": "./check %s quick" % pid,
        "thorough_cmd": "./check %s thorough" % pid,
        "evidence_file": "evidence/%s.json" % pid,
        "replay_cmd_template": "./check --replay {path}",
        "engine": "harness",
        "level_claimed": {"category": LEVELS.get(pid, "exploration"), "text": text, "design_ref": ref},
        "level_note": note,
        "technique": technique,
    })
na = [{"property_id": p, "reason": NOT_APPLICABLE.get(p, "check not built yet in this round; see DESIGN.md section 3 for the planned generator and oracle")}
      for p in props if p not in CHECKS]
m = {
    "version": 1,
    "setup_cmd": "./check --build",
    "hooks": {
        "guard": "verif",
        "enable": "go test -c -tags verif (the harness module replaces github.com/glycerine/zygomys/v9 by /repo and builds it with -tags verif)",
        "baseline_off_cmd": "cd /repo && GOFLAGS=-mod=mod GOPROXY=off GOSUMDB=off GOTOOLCHAIN=local %s test -json -vet=off -count=1 -timeout 25m ./zygo/" % GO,
        "source_commits": hook_commits,
        "add_only": True,
    },
    "engines": [{"name": "harness", "path": "harness/", "serves_properties": sorted(CHECKS),
                 "kind_free_text": "Go test binary (pgregory.net/rapid v1.3.0 generators + exhaustive enumerators + native go fuzz targets) driven by the python script ./check, which shards, merges evidence and prints verdict lines"}],
    "checks": checks,
    "not_applicable": na,
    "notes": "All checks are generated-input search against an explicit oracle (see DESIGN.md). exit 2 = inconclusive.",
}
json.dump(m, open(os.path.join(HERE, "MANIFEST.json"), "w"), indent=1)
print("MANIFEST.json: %d checks, %d not claimed" % (len(checks), len(na)))
