// zp: scratch parser driver: each argument is one piece delivered with the REPL protocol.
package main

import (
	"bytes"
	"fmt"
	"os"

	"github.com/glycerine/zygomys/v9/zygo"
)

func main() {
	env := zygo.NewZlisp()
	p := env.NewParser()
	for i, piece := range os.Args[1:] {
		if i == 0 {
			p.ResetAddNewInput(bytes.NewBufferString(piece))
		} else {
			p.NewInput(bytes.NewBufferString(piece))
		}
		xs, err := p.ParseTokens()
		fmt.Printf("piece %d %q -> err=%v exprs=", i, piece, err)
		for _, x := range xs {
			fmt.Printf(" <%s>", x.SexpString(nil))
		}
		fmt.Println()
	}
}
