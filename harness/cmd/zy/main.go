// zy: scratch evaluator used while developing the checks (not part of any check).
// usage: zy [-sandbox] [-nostd] 'text' 'text' ...   each text evaluated in turn on one interpreter.
package main

import (
	"fmt"
	"os"

	"github.com/glycerine/zygomys/v9/zygo"
)

func main() {
	args := os.Args[1:]
	sandbox, nostd := false, false
	for len(args) > 0 && args[0][0] == '-' {
		switch args[0] {
		case "-sandbox":
			sandbox = true
		case "-nostd":
			nostd = true
		}
		args = args[1:]
	}
	var env *zygo.Zlisp
	if sandbox {
		env = zygo.NewZlispSandbox()
	} else {
		env = zygo.NewZlisp()
	}
	if !nostd {
		env.StandardSetup()
	}
	env.AddFunction("trace", func(env *zygo.Zlisp, name string, a []zygo.Sexp) (zygo.Sexp, error) {
		for _, x := range a {
			fmt.Printf("  trace: %s\n", x.SexpString(nil))
		}
		if len(a) == 0 {
			return zygo.SexpNull, nil
		}
		return a[len(a)-1], nil
	})
	for _, a := range args {
		func() {
			defer func() {
				if r := recover(); r != nil {
					fmt.Printf("%q => PANIC %v\n", a, r)
				}
			}()
			v, err := env.EvalString(a + "\n")
			if err != nil {
				fmt.Printf("%q => ERROR %v\n", a, err)
				env.Clear()
				return
			}
			fmt.Printf("%q => %s   (%T)  depths=%+v\n", a, v.SexpString(nil), v, env.VerifDepths())
		}()
	}
}
