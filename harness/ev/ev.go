// Package ev is the evidence / verdict recorder shared by all property checks.
//
// A check process ("shard") creates one Run, reports every executed case
// through Count, every failing case through Fail, and on Close writes a
// partial result file that the python driver (/verif/check) merges into
// /verif/evidence/<ID>.json and turns into VIOLATION / KNOWN-FINDING lines.
package ev

import (
	"bufio"
	"crypto/sha256"
	"encoding/binary"
	"encoding/hex"
	"encoding/json"
	"fmt"
	"hash/fnv"
	"os"
	"path/filepath"
	"sort"
	"strconv"
	"strings"
	"sync"
	"time"
)

// Failure describes one observed disagreement between implementation and oracle.
type Failure struct {
	// Sig is a compact, deterministic signature of *what* fails, specific to the
	// failing input / call site / history class; known findings match on it.
	Sig      string `json:"sig"`
	Msg      string `json:"msg"`
	Expected any    `json:"expected,omitempty"`
	Observed any    `json:"observed,omitempty"`
}

func (f *Failure) String() string {
	return fmt.Sprintf("%s [sig=%s] expected=%v observed=%v", f.Msg, f.Sig, f.Expected, f.Observed)
}

// Replay is the on-disk form of a failing case.
type Replay struct {
	Property string          `json:"property"`
	Sub      string          `json:"sub"`
	Case     json.RawMessage `json:"case"`
	Failure  *Failure        `json:"failure,omitempty"`
	Seed     int64           `json:"seed"`
	Note     string          `json:"note,omitempty"`
}

type violation struct {
	Sub    string   `json:"sub"`
	Sig    string   `json:"sig"`
	Msg    string   `json:"msg"`
	Replay string   `json:"replay"`
	Fail   *Failure `json:"failure"`
}

type knownLine struct {
	Property string
	Sig      string
	Text     string
}

// Part is what a shard writes; the driver merges Parts.
type Part struct {
	Property      string            `json:"property_id"`
	Tier          string            `json:"tier"`
	Seed          int64             `json:"seed"`
	Shard         int               `json:"shard"`
	NShards       int               `json:"nshards"`
	Evaluations   int64             `json:"evaluations"`
	NonTrivial    int64             `json:"nontrivial_evaluations"`
	HashFile      string            `json:"hash_file"`
	Labels        map[string]int64  `json:"labels"`
	Excluded      map[string]int64  `json:"excluded"`
	Samples       []any             `json:"samples"`
	Exhaustive    map[string]int64  `json:"exhaustive_subspaces"`
	Rule          string            `json:"rule"`
	Assumptions   []string          `json:"assumptions"`
	Violations    []violation       `json:"violations"`
	Known         map[string]string `json:"known_findings_hit"`
	KnownCounts   map[string]int64  `json:"known_findings_counts"`
	Subs          map[string]int64  `json:"sub_checks"`
	Extra         map[string]any    `json:"extra"`
	WallS         float64           `json:"wall_s"`
	Completed     bool              `json:"completed"`
	ReplaysRun    int               `json:"replays_run"`
	Inconclusive  []string          `json:"inconclusive"`
	RapidRequests map[string]int    `json:"rapid_requested"`
}

type Run struct {
	mu        sync.Mutex
	P         Part
	start     time.Time
	hashes    map[uint64]struct{}
	sampleCnt map[string]int
	known     []knownLine
	last      map[string]*pending // per sub: last failure seen (rapid re-runs the minimal one last)
	order     []string
	replayDir string
	partPath  string
	closed    bool
}

type pending struct {
	c any
	f *Failure
}

// Env helpers -----------------------------------------------------------------

func envInt(k string, def int64) int64 {
	if v := os.Getenv(k); v != "" {
		if n, err := strconv.ParseInt(v, 10, 64); err == nil {
			return n
		}
	}
	return def
}

func Tier() string {
	if t := os.Getenv("VERIF_TIER"); t == "thorough" {
		return "thorough"
	}
	return "quick"
}
func Thorough() bool { return Tier() == "thorough" }
func Seed() int64    { return envInt("VERIF_SEED", 1) }
func Shard() int     { return int(envInt("VERIF_SHARD", 0)) }
func NShards() int   { return int(envInt("VERIF_NSHARDS", 1)) }

// DerivedSeed gives a non-zero 63-bit value that is a pure function of
// (VERIF_SEED, property, sub-check, shard).
func DerivedSeed(id, sub string) uint64 {
	h := fnv.New64a()
	fmt.Fprintf(h, "%d|%s|%s|%d", Seed(), id, sub, Shard())
	v := h.Sum64() &^ (1 << 63)
	if v == 0 {
		v = 1
	}
	return v
}

// Scale picks a per-tier count and divides thorough counts over shards.
func Scale(quick, thorough int) int {
	n := quick
	if Thorough() {
		n = thorough
	}
	n /= NShards()
	if n < 1 {
		n = 1
	}
	return n
}

func VerifDir() string {
	if d := os.Getenv("VERIF_DIR"); d != "" {
		return d
	}
	return "/verif"
}

// Begin ------------------------------------------------------------------------

func Begin(id string) *Run {
	r := &Run{start: time.Now(), hashes: map[uint64]struct{}{}, sampleCnt: map[string]int{}, last: map[string]*pending{}}
	r.P = Part{Property: id, Tier: Tier(), Seed: Seed(), Shard: Shard(), NShards: NShards(),
		Labels: map[string]int64{}, Excluded: map[string]int64{}, Exhaustive: map[string]int64{},
		Known: map[string]string{}, KnownCounts: map[string]int64{}, Subs: map[string]int64{}, Extra: map[string]any{},
		RapidRequests: map[string]int{}}
	r.replayDir = os.Getenv("VERIF_REPLAY_OUT")
	if r.replayDir == "" {
		r.replayDir = filepath.Join(VerifDir(), "replays", "new")
	}
	r.partPath = os.Getenv("VERIF_PART")
	if r.partPath == "" {
		r.partPath = filepath.Join(os.TempDir(), fmt.Sprintf("verif-%s-%d.part.json", id, os.Getpid()))
	}
	r.loadKnown(filepath.Join(VerifDir(), "known_findings.txt"))
	return r
}

func (r *Run) loadKnown(path string) {
	f, err := os.Open(path)
	if err != nil {
		return
	}
	defer f.Close()
	sc := bufio.NewScanner(f)
	sc.Buffer(make([]byte, 1<<20), 1<<20)
	for sc.Scan() {
		line := strings.TrimSpace(sc.Text())
		if !strings.HasPrefix(line, "known:") {
			continue
		}
		rest := strings.TrimSpace(strings.TrimPrefix(line, "known:"))
		// known: property=C08 sig=<no spaces> free text
		fs := strings.SplitN(rest, " ", 3)
		if len(fs) < 2 || !strings.HasPrefix(fs[0], "property=") || !strings.HasPrefix(fs[1], "sig=") {
			continue
		}
		k := knownLine{Property: strings.TrimPrefix(fs[0], "property="), Sig: strings.TrimPrefix(fs[1], "sig=")}
		if len(fs) == 3 {
			k.Text = fs[2]
		}
		if k.Property == r.P.Property {
			r.known = append(r.known, k)
		}
	}
}

// IsKnown reports whether sig is listed in known_findings.txt for this property.
func (r *Run) IsKnown(sig string) bool {
	for _, k := range r.known {
		if k.Sig == sig {
			return true
		}
	}
	return false
}

func (r *Run) SetRule(rule string)      { r.P.Rule = rule }
func (r *Run) Assume(a ...string)       { r.P.Assumptions = append(r.P.Assumptions, a...) }
func (r *Run) SetExtra(k string, v any) { r.mu.Lock(); r.P.Extra[k] = v; r.mu.Unlock() }
func (r *Run) Inconclusive(why string) {
	r.mu.Lock()
	r.P.Inconclusive = append(r.P.Inconclusive, why)
	r.mu.Unlock()
}
func (r *Run) ExhaustiveSpace(name string, n int64) {
	r.mu.Lock()
	r.P.Exhaustive[name] += n
	r.mu.Unlock()
}

// Hash64 of a canonical case description.
func Hash64(parts ...string) uint64 {
	h := fnv.New64a()
	for _, p := range parts {
		h.Write([]byte(p))
		h.Write([]byte{0})
	}
	return h.Sum64()
}

// Count records one executed case. key is the canonical form used for
// distinctness; only non-trivial cases enter the distinct set.
func (r *Run) Count(sub string, key uint64, nontrivial bool, labels ...string) {
	r.mu.Lock()
	r.P.Evaluations++
	r.P.Subs[sub]++
	if nontrivial {
		r.P.NonTrivial++
		r.hashes[key^Hash64(sub)] = struct{}{}
	}
	for _, l := range labels {
		r.P.Labels[l]++
	}
	r.mu.Unlock()
}

func (r *Run) Label(l string) { r.mu.Lock(); r.P.Labels[l]++; r.mu.Unlock() }

func (r *Run) Exclude(reason string) { r.mu.Lock(); r.P.Excluded[reason]++; r.mu.Unlock() }

// Sample keeps up to perClass samples for each class and at most 14 overall.
func (r *Run) Sample(class string, v any) {
	r.mu.Lock()
	defer r.mu.Unlock()
	if r.sampleCnt[class] >= 2 || len(r.P.Samples) >= 14 {
		return
	}
	r.sampleCnt[class]++
	r.P.Samples = append(r.P.Samples, map[string]any{"class": class, "case": v})
}

// Fail records a failing case. It returns true when the failure is a NEW
// violation (the caller should then fail the test so that rapid shrinks it),
// and false when it matches a listed known finding (the caller continues).
func (r *Run) Fail(sub string, c any, f *Failure) bool {
	r.mu.Lock()
	defer r.mu.Unlock()
	if r.IsKnown(f.Sig) {
		if _, seen := r.P.Known[f.Sig]; !seen {
			txt := f.Msg
			for _, k := range r.known {
				if k.Sig == f.Sig && k.Text != "" {
					txt = k.Text
				}
			}
			r.P.Known[f.Sig] = txt
		}
		r.P.KnownCounts[f.Sig]++
		r.P.Excluded["known-finding:"+f.Sig]++
		return false
	}
	if _, ok := r.last[sub]; !ok {
		r.order = append(r.order, sub)
	}
	r.last[sub] = &pending{c: c, f: f}
	return true
}

// FailDistinct is for enumerations: keeps one pending failure per (sub,sig).
func (r *Run) FailDistinct(sub string, c any, f *Failure) bool {
	key := sub + "#" + f.Sig
	r.mu.Lock()
	if _, ok := r.last[key]; ok || len(r.last) >= 20 {
		r.mu.Unlock()
		return !r.IsKnown(f.Sig)
	}
	r.mu.Unlock()
	return r.Fail(key, c, f)
}

func (r *Run) NumViolations() int { return len(r.last) }

// Close writes replay files and the part file. Safe to call twice.
func (r *Run) Close(completed bool) {
	r.mu.Lock()
	defer r.mu.Unlock()
	if r.closed {
		return
	}
	r.closed = true
	r.P.Completed = completed
	r.P.WallS = time.Since(r.start).Seconds()
	os.MkdirAll(r.replayDir, 0o755)
	for _, key := range r.order {
		p := r.last[key]
		sub := key
		if i := strings.Index(key, "#"); i >= 0 {
			sub = key[:i]
		}
		raw, err := json.Marshal(p.c)
		if err != nil {
			raw, _ = json.Marshal(fmt.Sprintf("%+v", p.c))
		}
		rp := Replay{Property: r.P.Property, Sub: sub, Case: raw, Failure: p.f, Seed: r.P.Seed}
		body, _ := json.MarshalIndent(rp, "", " ")
		sum := sha256.Sum256(append([]byte(sub+"|"), raw...))
		path := filepath.Join(r.replayDir, fmt.Sprintf("%s-%s-%s.json", r.P.Property, sanitize(sub), hex.EncodeToString(sum[:5])))
		os.WriteFile(path, body, 0o644)
		r.P.Violations = append(r.P.Violations, violation{Sub: sub, Sig: p.f.Sig, Msg: p.f.Msg, Replay: path, Fail: p.f})
	}
	// hashes -> sidecar binary file
	hf := r.partPath + ".hashes"
	keys := make([]uint64, 0, len(r.hashes))
	for k := range r.hashes {
		keys = append(keys, k)
	}
	sort.Slice(keys, func(i, j int) bool { return keys[i] < keys[j] })
	buf := make([]byte, 8*len(keys))
	for i, k := range keys {
		binary.LittleEndian.PutUint64(buf[8*i:], k)
	}
	os.WriteFile(hf, buf, 0o644)
	r.P.HashFile = hf
	body, _ := json.MarshalIndent(r.P, "", " ")
	os.WriteFile(r.partPath, body, 0o644)
}

func sanitize(s string) string {
	var b strings.Builder
	for _, c := range s {
		if c >= 'a' && c <= 'z' || c >= 'A' && c <= 'Z' || c >= '0' && c <= '9' || c == '_' || c == '-' {
			b.WriteRune(c)
		} else {
			b.WriteByte('_')
		}
	}
	return b.String()
}

// LoadReplay reads a replay file.
func LoadReplay(path string) (*Replay, error) {
	b, err := os.ReadFile(path)
	if err != nil {
		return nil, err
	}
	var rp Replay
	if err := json.Unmarshal(b, &rp); err != nil {
		return nil, err
	}
	return &rp, nil
}
