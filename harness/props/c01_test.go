package props

import (
	"encoding/json"
	"fmt"
	"os"
	"os/exec"
	"path/filepath"
	"sort"
	"strings"
	"testing"
	"time"

	"github.com/glycerine/zygomys/v9/zygo"
	"pgregory.net/rapid"

	"verif/harness/ev"
)

// C01 — no input can crash the host: every script-facing entry point returns a
// value or an error, and returns whenever the program needs boundedly many steps.
//
// Oracle: the call returns. A Go panic that reaches the harness's recover, or a
// call that does not come back although the VM step budget bounds the run, is a
// violation. Budget exhaustion itself is "discarded", never a verdict.

type crashCase struct {
	Text string `json:"text"`
}

const c01Budget = 20000

var c01Routes = []string{"EvalString", "LoadString+Run", "ParseTokens", "ParseTokens+EvalExpressions", "macexpand", "eval-quoted", "read", "repl-infix-line", "two-evaluations"}

func c01Env() *zygo.Zlisp {
	env := newEnv(envFull)
	// allocation bombs say nothing about the interpreter: sizes are capped
	for _, name := range []string{"makeArray"} {
		name := name
		orig := zygo.AllBuiltinFunctions()[name]
		if orig == nil {
			continue
		}
		env.AddFunction(name, func(e *zygo.Zlisp, n string, a []zygo.Sexp) (zygo.Sexp, error) {
			if len(a) > 0 {
				if i, ok := a[0].(*zygo.SexpInt); ok && (i.Val > 1<<16 || i.Val < 0) {
					return zygo.SexpNull, fmt.Errorf("%s: size refused by the harness", name)
				}
			}
			return orig(e, n, a)
		})
	}
	return env
}

// runRoute drives one entry point; returns a panic text ("" = returned normally) and the outcome class
func runRoute(route, text string) (panicked string, outcome string) {
	env := c01Env()
	zygo.VerifSetStepBudget(c01Budget)
	defer zygo.VerifSetStepBudget(0)
	classify := func(v zygo.Sexp, err error) {
		switch {
		case zygo.VerifBudgetExceeded():
			outcome = "budget"
		case err != nil:
			outcome = "error"
		default:
			outcome = "value"
			// printing the result is part of the call
			if v != nil {
				_ = v.SexpString(nil)
			}
		}
	}
	quoted := fmt.Sprintf("%q", text)
	panicked = safeCall(func() {
		// disposing of the interpreter is part of the call: a panic kept inside the parser's
		// coroutine resurfaces there
		defer env.Close()
		switch route {
		case "EvalString":
			classify(env.EvalString(text))
		case "LoadString+Run":
			if err := env.LoadString(text); err != nil {
				classify(nil, err)
				return
			}
			classify(env.Run())
		case "ParseTokens":
			xs, err, pn := parseList(env, text)
			if pn != "" {
				panic(pn)
			}
			for _, x := range xs {
				_ = x.SexpString(nil)
			}
			classify(nil, err)
		case "ParseTokens+EvalExpressions":
			xs, err, pn := parseList(env, text)
			if pn != "" {
				panic(pn)
			}
			if err != nil {
				classify(nil, err)
				return
			}
			classify(env.EvalExpressions(xs))
		case "macexpand":
			classify(env.EvalString("(macexpand " + text + ")"))
		case "eval-quoted":
			classify(env.EvalString("(eval (quote " + text + "))"))
		case "read":
			classify(env.EvalString("(eval (read " + quoted + "))"))
		case "repl-infix-line":
			classify(env.EvalString(env.ReplLineInfixWrap(text)))
		case "two-evaluations":
			// the interpreter must stay usable after whatever the text did
			_, err := env.EvalString(text)
			if err != nil {
				env.Clear()
			}
			zygo.VerifSetStepBudget(c01Budget)
			classify(env.EvalString("(+ 1 2) " + text))
		}
	})
	return
}

// withWatchdog runs f; reports whether it came back within the limit
func withWatchdog(limit time.Duration, f func()) bool {
	done := make(chan struct{})
	go func() { defer close(done); f() }()
	select {
	case <-done:
		return true
	case <-time.After(limit):
		return false
	}
}

func checkNoCrash(c crashCase) *ev.Failure {
	if strings.Contains(c.Text, "/dev/") || strings.Contains(c.Text, "/proc/") {
		return nil
	}
	for _, route := range c01Routes {
		var pn, outcome string
		back := withWatchdog(30*time.Second, func() { pn, outcome = runRoute(route, c.Text) })
		if !back {
			// a second, longer look before calling it a hang (never a verdict from one slow moment)
			back = withWatchdog(120*time.Second, func() { pn, outcome = runRoute(route, c.Text) })
			if !back {
				return &ev.Failure{Sig: "no-return:" + route + ":" + crashShape(c.Text), Msg: fmt.Sprintf("%s of %q does not return although the VM step budget (%d) bounds the run", route, clip(c.Text, 300), c01Budget), Expected: "a value or an error", Observed: "no return within 30 s and again within 120 s"}
			}
		}
		_ = outcome
		if pn != "" {
			return &ev.Failure{Sig: "panic:" + panicSite(pn), Msg: fmt.Sprintf("%s of %q panics out of the library", route, clip(c.Text, 300)), Expected: "a value or an error", Observed: clip(pn, 1500)}
		}
	}
	return nil
}

// panicSite: first zygo frame of the stack (the root cause identity)
func panicSite(pn string) string {
	parts := strings.Split(pn, " | ")
	for _, p := range parts {
		if k := strings.Index(p, "zygomys/v9/zygo."); k >= 0 && !strings.Contains(p, "panicOn") && !strings.Contains(p, "CallUserFunction.func") {
			s := p[k+len("zygomys/v9/zygo."):]
			if j := strings.Index(s, "("); j > 0 && !strings.HasPrefix(s, "(") {
				s = s[:j]
			} else if strings.HasPrefix(s, "(") {
				// method: (*T).Name(args
				if e := strings.Index(s, ")."); e >= 0 {
					rest := s[e+2:]
					if a := strings.Index(rest, "("); a >= 0 {
						rest = rest[:a]
					}
					s = s[:e+2] + rest
				}
			}
			return clip(firstLine(pn), 60) + "@" + s
		}
	}
	return firstLine(pn)
}

func crashShape(text string) string {
	f := strings.Fields(text)
	if len(f) == 0 {
		return "empty"
	}
	return clip(f[0], 12)
}

var checkNoCrashR = reg("C01", "text", checkNoCrash)

func init() {
	for _, sub := range []string{"tokens", "hostile", "mutant", "headatom"} {
		replayers["C01/"+sub] = replayers["C01/text"]
	}
}

// generators --------------------------------------------------------------------------

var c01Tokens = []string{"(", ")", "[", "]", "{", "}", "%", "^", "~", "~@", ":", ":=", "=", ";", ",", ".", "a", "a:", "a.b", ".a", "1", "-1", "1.5", `"s"`, "#c", "`", "+", "-", "*", "<", "and", "cond", "let", "def", "fn", "for", "'", "#", "$", "&", "|", "\\", "@", "?", "//", "/*", "*/", "\"", "==", "!", "->", "..", "0x", "1e", "nil", "quote", "defmac", "break", "package", "set", "++", "[]", "a[", "b]"}

var c01Heads = []string{"f", "tf", "m", "mm", "mth", "a", "b", "S", "and", "or", "cond", "let", "letseq", "def", "set", "fn", "defn", "defmac", "for", "range", "break", "continue", "quote", "begin", "newScope", "mdef", "assert", "include", "macexpand", "eval", "return", "struct", "field", "func", "method", "interface", "package", "import", "var", "expectError", "comment", "%", "^", "~", "~@", ":", "=", ":=", "+", "-", "*", "/", "<", "==", "!=", "not", "aget", "aset", "hget", "hset", "hdel", "first", "rest", "cons", "append", "concat", "len", "str", "json", "unjson", "msgpack", "unmsgpack", "togo", "apply", "map", "sprintf", "symnum", "str2sym", "sym2str", "gensym", "read", "slice", "flatten", "arrayidx", "hashidx", "hpair", "keys", "infixExpand", "infix", "defined?", "type?", "list", "array", "hash", "raw", "makeArray", "string", "int", "float", "char", "_method", "deref", "&", "derefSet", "dot", ".", "chomp", "trim", "split", "nsplit", "exp", "sll", "sra", "bitNot", "bitAnd", "mod", "**", "++", "--", "+=", "pretty", "callcc", "generator", "sort", "reverse", "label:"}

var c01Atoms = []string{`"日本語"`, `"é😀"`, `doc:"日本語ですね"`, `gotags:"json:\"é😀😀\""`, "e:0", `([] \ 3)`, `(1 \ 2)`, `(a b \ c)`, `("s" \ [])`, "1", "-1", "0", "9223372036854775807", "-9223372036854775808", "1.5", "1e308", "-0.0", `"s"`, `""`, "#c", "nil", "true", "a", "b", "a:", ".a", "a.b", "a.b.c", "$a", "#a", "[]", "[1 2]", "()", "(quote x)", "{}", "{a = 1}", "(hash a: 1)", "(hash)", "(list 1 2)", "(fn [x] x)", "(fn [] (break))", "(raw \"ab\")", "[a b]", "[1 [2 [3]]]", "(list)", "%x", "^(a ~b)", "~x", "~@x", "lp:", "& rest", "[& r]", "[a & ]", "[#x]", "(def a 1)", "(and)", "(let)", "(cond)", "(for)", "(fn)", "x y", "\"\\x00\"", "(str2sym \"\")", "(str2sym \"a b\")", "(gensym)", "(read \"\")", "(read \" \")", "(read \"(\")", ".a", ".a.b", "(field .a 1)", "(hash .a 1)", "(macexpand nil)", "(eval nil)", "(apply f nil)"}

var c01SecondAtoms = []string{`"日本語"`, `([] \ 3)`, "-1", "9223372036854775807", "nil", "a:", ".a", "a.b", "[]", "()", "#a", "$a"}

func genHostile(t *rapid.T, depth int) string {
	k := rapid.IntRange(0, 9).Draw(t, "hk")
	if depth >= 3 || k < 3 {
		return rapid.SampledFrom(c01Atoms).Draw(t, "atom")
	}
	open, close := "(", ")"
	switch rapid.IntRange(0, 11).Draw(t, "brk") {
	case 0:
		open, close = "[", "]"
	case 1:
		open, close = "{", "}"
	}
	var parts []string
	if open != "[" || rapid.Bool().Draw(t, "headInArr") {
		parts = append(parts, rapid.SampledFrom(c01Heads).Draw(t, "head"))
	}
	for i := 0; i < rapid.IntRange(0, 4).Draw(t, "nargs"); i++ {
		parts = append(parts, genHostile(t, depth+1))
	}
	return open + strings.Join(parts, " ") + close
}

func genHostileProgram(t *rapid.T) string {
	var forms []string
	if rapid.IntRange(0, 2).Draw(t, "prelude") == 0 {
		forms = append(forms, rapid.SampledFrom([]string{
			"(def a [1 2 3]) (def b (hash k: 1)) (defn f [x] (+ x 1))",
			"(def a [1]) (aset a 0 a) (def b (hash)) (hset b k: b)",
			"(defmac m [x] ^(+ ~x 1)) (defmac mm [& r] ^(list ~@r)) (def a 1) (def b 2)",
			"(struct S [(field Id: int64)]) (def a (S Id: 1)) (def b (& a))",
			// declarations carrying non-ASCII attribute text: printing them (as a value, or inside an error text) pads columns
			"(struct S [(field Id: int64 e:0 doc:\"日本語\") (field Nm: string e:1 gotags:\"json:\\\"é😀😀\\\"\")]) (def a (S Id: 1)) (func tf [c:S] [ok:bool] true) (def b S)",
			"(def a (package \"p\" (def Pub 1) (def priv 2))) (def b a)",
			"(defn f [#x] #x) (def a (f (+ 1 2))) (def b [a a])",
			"(func tf [a:int64 b:string] [n:int64 err:error] (return a nil)) (def a 1) (def b \"s\") (defn f [x & r] x)",
			"(struct S [(field Id: int64)]) (method [p: (* S)] mth [a:int64] [n:int64] (return a)) (interface I [(func mth [a:int64] [n:int64])]) (def a (S)) (def b 2)",
		}).Draw(t, "pre"))
	}
	for i := 0; i < rapid.IntRange(1, 3).Draw(t, "nforms"); i++ {
		forms = append(forms, genHostile(t, 0))
	}
	return strings.Join(forms, " ")
}

func c01Corpus() []string {
	repo := os.Getenv("VERIF_REPO")
	if repo == "" {
		repo = "/repo"
	}
	var texts []string
	files, _ := filepath.Glob(filepath.Join(repo, "tests", "*.zy"))
	sort.Strings(files)
	for _, f := range files {
		base := filepath.Base(f)
		if base == "coroutines.zy" || base == "system.zy" || base == "timeit.zy" {
			continue
		}
		if b, err := os.ReadFile(f); err == nil && len(b) < 20000 {
			texts = append(texts, string(b))
		}
	}
	return texts
}

func mutate(t *rapid.T, src string, other string) string {
	b := []byte(src)
	for i := 0; i < rapid.IntRange(1, 4).Draw(t, "nmut"); i++ {
		if len(b) == 0 {
			break
		}
		pos := rapid.IntRange(0, len(b)-1).Draw(t, "pos")
		switch rapid.IntRange(0, 7).Draw(t, "mut") {
		case 0: // delete a span
			end := pos + rapid.IntRange(1, 12).Draw(t, "dl")
			if end > len(b) {
				end = len(b)
			}
			b = append(b[:pos:pos], b[end:]...)
		case 1: // duplicate a span
			end := pos + rapid.IntRange(1, 20).Draw(t, "dup")
			if end > len(b) {
				end = len(b)
			}
			span := append([]byte{}, b[pos:end]...)
			b = append(b[:end:end], append(span, b[end:]...)...)
		case 2: // insert a hostile token
			tok := " " + rapid.SampledFrom(c01Tokens).Draw(t, "tok") + " "
			b = append(b[:pos:pos], append([]byte(tok), b[pos:]...)...)
		case 3: // replace a bracket
			for j := pos; j < len(b); j++ {
				if strings.ContainsRune("()[]{}", rune(b[j])) {
					b[j] = "()[]{}\"`"[rapid.IntRange(0, 7).Draw(t, "br")]
					break
				}
			}
		case 4: // truncate
			b = b[:pos]
		case 5: // splice from another script
			if len(other) > 0 {
				op := rapid.IntRange(0, len(other)-1).Draw(t, "op")
				oe := op + rapid.IntRange(1, 60).Draw(t, "ol")
				if oe > len(other) {
					oe = len(other)
				}
				b = append(b[:pos:pos], append([]byte(other[op:oe]), b[pos:]...)...)
			}
		case 6: // replace an atom by a hostile atom
			atom := rapid.SampledFrom(c01Atoms).Draw(t, "hatom")
			end := pos
			for end < len(b) && !strings.ContainsRune(" \n()[]{}", rune(b[end])) {
				end++
			}
			b = append(b[:pos:pos], append([]byte(atom), b[end:]...)...)
		default: // flip a byte
			b[pos] = byte(rapid.IntRange(0, 255).Draw(t, "byte"))
		}
	}
	return string(b)
}

// A stack overflow or another fatal runtime error cannot be recovered: it kills the process that
// runs the cases. The cases therefore run in a worker process which records the text in flight;
// when the worker dies the supervisor adds that text to a list, and the next worker reports it
// as a violation (host process died), skips it and carries on from the same seed.
var (
	c01Skip     = map[string]bool{}
	c01Inflight string
)

func c01Check(r *ev.Run, c crashCase) *ev.Failure {
	if c01Skip[c.Text] {
		r.Exclude("killed-a-worker-already-reported")
		return nil
	}
	if c01Inflight != "" {
		os.WriteFile(c01Inflight, []byte(c.Text), 0o644)
	}
	f := checkNoCrash(c)
	if c01Inflight != "" {
		os.WriteFile(c01Inflight, nil, 0o644)
	}
	return f
}

func c01Supervise(t *testing.T) {
	scratch := os.Getenv("VERIF_SCRATCH")
	if scratch == "" {
		scratch = os.TempDir()
	}
	tag := fmt.Sprintf("%s-%d", os.Getenv("VERIF_TIER"), ev.Shard())
	skipPath := filepath.Join(scratch, "c01-skip-"+tag+".json")
	inflight := filepath.Join(scratch, "c01-inflight-"+tag+".txt")
	os.Remove(skipPath)
	self, _ := os.Executable()
	var killers []string
	for attempt := 0; attempt < 15; attempt++ {
		os.WriteFile(inflight, nil, 0o644)
		cmd := exec.Command(self, "-test.run", "^TestC01$", "-test.timeout", "0")
		cmd.Env = append(os.Environ(), "VERIF_C01_WORKER=1", "VERIF_C01_SKIP="+skipPath, "VERIF_C01_INFLIGHT="+inflight)
		out, err := cmd.CombinedOutput()
		if err == nil {
			os.Remove(skipPath)
			os.Remove(inflight)
			return
		}
		text, _ := os.ReadFile(inflight)
		if len(text) == 0 || contains(killers, string(text)) {
			tail := string(out)
			if len(tail) > 3000 {
				tail = tail[len(tail)-3000:]
			}
			t.Fatalf("worker ended (%v) without a case in flight:\n%s", err, tail)
		}
		first := string(out)
		if i := strings.Index(first, "fatal error"); i >= 0 {
			first = first[i:]
		}
		killers = append(killers, string(text))
		type killer struct{ Text, Output string }
		var list []killer
		if raw, err := os.ReadFile(skipPath); err == nil {
			json.Unmarshal(raw, &list)
		}
		list = append(list, killer{Text: string(text), Output: clip(first, 1500)})
		raw, _ := json.Marshal(list)
		os.WriteFile(skipPath, raw, 0o644)
	}
	t.Fatalf("more than 15 worker deaths: %q", killers)
}

func TestC01(t *testing.T) {
	if os.Getenv("VERIF_C01_WORKER") == "" && os.Getenv("VERIF_PART") != "" {
		c01Supervise(t)
		return
	}
	p := begin(t, "C01")
	r := p.r
	c01Inflight = os.Getenv("VERIF_C01_INFLIGHT")
	if raw, err := os.ReadFile(os.Getenv("VERIF_C01_SKIP")); err == nil {
		var list []struct{ Text, Output string }
		json.Unmarshal(raw, &list)
		for _, k := range list {
			c01Skip[k.Text] = true
			site := "fatal"
			if strings.Contains(k.Output, "stack overflow") {
				site = "stack-overflow"
			}
			for _, l := range strings.Split(k.Output, "\n") {
				if i := strings.Index(l, "zygomys/v9/zygo."); i >= 0 {
					site += "@" + clip(strings.TrimSpace(l[i+len("zygomys/v9/zygo."):]), 40)
					break
				}
			}
			r.Count("tokens", ev.Hash64("killer", k.Text), true, "killed-a-worker")
			p.reportEnum("text", crashCase{Text: k.Text}, &ev.Failure{Sig: "host-process-died:" + site, Msg: fmt.Sprintf("evaluating %q kills the host process (fatal runtime error, not recoverable)", clip(k.Text, 300)), Expected: "a value or an error", Observed: k.Output})
		}
	}
	r.SetRule(fmt.Sprintf("tokens: every string of <=L tokens over a %d-token alphabet (brackets, sigils, quote characters, numbers, strings, symbols, dotted and colon forms, special-form names, comment and string openers), joined with single spaces and again glued without spaces - exhaustive for L=2 (quick) / L=3 (thorough), rapid-sampled for lengths up to 7. headatom: every one of those heads applied to every hostile atom (non-ASCII strings and field attributes, dotted pairs, boundary numbers, sigils, ...) - exhaustive; thorough: additionally with a second argument from a list of 12 atoms. hostile: grammar-generated forms whose head is any of %d special forms, builders and builtins with 0-4 arguments of the wrong shape (atoms of every kind, empty and malformed special forms, cyclic data, lazy arguments, packages, struct instances, typed func / method declarations and calls of them), nested to depth 3, in (), [] and {} brackets, optionally after a prelude defining such values. mutant: tests/*.zy scripts cut to a window and mutated 1-4 times (delete, duplicate, insert hostile token, change a bracket, truncate, splice from another script, replace an atom, flip a byte). Every text goes through 9 entry points in fresh interpreters: EvalString, LoadString+Run, ParseTokens (+ printing the forms), ParseTokens+EvalExpressions, (macexpand text), (eval (quote text)), (eval (read \"text\")), the REPL's infix line wrap {text}, and a second evaluation on the same interpreter after Clear(). Oracle: every call returns (value or error; the result is printed); a panic reaching the harness or a call that does not return under the %d-step VM budget is a violation. Non-trivial: >=2 tokens and not a verbatim corpus text. Distinct by text.", len(c01Tokens), len(c01Heads), c01Budget))
	r.Assume("texts containing /dev/ or /proc/ are skipped (an include of /dev/zero is a hang that says nothing about the interpreter)", "makeArray refuses sizes > 65536 in the harness (allocation bombs); shell, channel and file-writing builtins are error stubs", "budget exhaustion is discarded, never a verdict; a call is only reported as not returning after 30 s and, re-run, 120 s")

	// (1) exhaustive token strings
	L := 2
	if ev.Thorough() {
		L = 3
	}
	var count int64
	idx := 0
	for n := 1; n <= L; n++ {
		idxs := make([]int, n)
		for {
			idx++
			if idx%ev.NShards() == ev.Shard() {
				toks := make([]string, n)
				for i, k := range idxs {
					toks[i] = c01Tokens[k]
				}
				for _, sep := range []string{" ", ""} {
					if sep == "" && n == 1 {
						continue
					}
					text := strings.Join(toks, sep)
					c := crashCase{Text: text}
					r.Count("tokens", ev.Hash64(text), n >= 2, fmt.Sprintf("tokens:%d", n), "exhaustive")
					count++
					p.reportEnum("tokens", c, c01Check(r, c))
				}
			}
			j := n - 1
			for j >= 0 {
				idxs[j]++
				if idxs[j] < len(c01Tokens) {
					break
				}
				idxs[j] = 0
				j--
			}
			if j < 0 {
				break
			}
		}
	}
	r.ExhaustiveSpace(fmt.Sprintf("token strings of length <=%d, spaced and glued (sharded)", L), count)

	// exhaustive: every head applied to every hostile atom (thorough: to every pair of atoms)
	var hcount int64
	hidx := 0
	for _, h := range c01Heads {
		for _, a1 := range c01Atoms {
			seconds := []string{""}
			if ev.Thorough() {
				// a second argument from a short list of the most hostile atoms (all pairs would be ~1 M texts x 9 entry points)
				seconds = append(seconds, c01SecondAtoms...)
			}
			for _, a2 := range seconds {
				hidx++
				if hidx%ev.NShards() != ev.Shard() {
					continue
				}
				text := "(" + h + " " + a1 + ")"
				if a2 != "" {
					text = "(" + h + " " + a1 + " " + a2 + ")"
				}
				c := crashCase{Text: text}
				r.Count("headatom", ev.Hash64(text), true, "head-x-atom", "exhaustive")
				hcount++
				p.reportEnum("headatom", c, c01Check(r, c))
			}
		}
	}
	r.ExhaustiveSpace("every head applied to every hostile atom (thorough: plus a second argument from 12 atoms) (sharded)", hcount)

	p.rapidSub("tokens", ev.Scale(1500, 300000), func(t *rapid.T) {
		n := rapid.IntRange(3, 7).Draw(t, "ntok")
		toks := make([]string, n)
		for i := range toks {
			toks[i] = rapid.SampledFrom(c01Tokens).Draw(t, "tok")
		}
		sep := rapid.SampledFrom([]string{" ", " ", "", "\n"}).Draw(t, "sep")
		c := crashCase{Text: strings.Join(toks, sep)}
		r.Count("tokens", ev.Hash64(c.Text), true, fmt.Sprintf("tokens:%d", n))
		if n == 5 {
			r.Sample("tokens", c.Text)
		}
		p.report(t, "tokens", c, c01Check(r, c))
	})

	p.rapidSub("hostile", ev.Scale(2500, 500000), func(t *rapid.T) {
		c := crashCase{Text: genHostileProgram(t)}
		head := "?"
		if f := strings.FieldsFunc(c.Text, func(r rune) bool { return strings.ContainsRune("()[]{} ", r) }); len(f) > 0 {
			head = f[0]
		}
		r.Count("hostile", ev.Hash64(c.Text), true, "first-head:"+clip(head, 14))
		if len(c.Text) < 200 {
			r.Sample("hostile", c.Text)
		}
		p.report(t, "hostile", c, c01Check(r, c))
	})

	corpus := c01Corpus()
	r.SetExtra("corpus_scripts", len(corpus))
	if len(corpus) > 0 {
		p.rapidSub("mutant", ev.Scale(1200, 250000), func(t *rapid.T) {
			src := corpus[rapid.IntRange(0, len(corpus)-1).Draw(t, "script")]
			other := corpus[rapid.IntRange(0, len(corpus)-1).Draw(t, "other")]
			// a window of the script, so that mutations are not buried under unrelated text
			if len(src) > 600 {
				start := rapid.IntRange(0, len(src)-600).Draw(t, "wstart")
				// align to a line start
				if i := strings.LastIndex(src[:start+1], "\n"); i >= 0 {
					start = i + 1
				}
				end := start + rapid.IntRange(100, 600).Draw(t, "wlen")
				if end > len(src) {
					end = len(src)
				}
				src = src[start:end]
			}
			c := crashCase{Text: mutate(t, src, other)}
			r.Count("mutant", ev.Hash64(c.Text), c.Text != src, "mutant")
			p.report(t, "mutant", c, c01Check(r, c))
		})
	}
	p.done()
}

// FuzzC01Eval is the native coverage-guided target (thorough tier; see check driver)
func FuzzC01Eval(f *testing.F) {
	for _, s := range c01Atoms {
		f.Add(s)
	}
	for _, s := range c01Corpus() {
		if len(s) < 1500 {
			f.Add(s)
		}
	}
	f.Add("(and)")
	f.Add("{a = }")
	f.Fuzz(func(t *testing.T, text string) {
		if len(text) > 4000 {
			return
		}
		if fl := checkNoCrash(crashCase{Text: text}); fl != nil {
			t.Fatalf("%s\n%v", fl.Msg, fl.Observed)
		}
	})
}
