package props

import (
	"fmt"
	"strings"
	"testing"

	"github.com/glycerine/zygomys/v9/zygo"
	"pgregory.net/rapid"

	"verif/harness/ev"
)

// C02 — evaluation matches the reference semantics (values, control flow, effect order).

type progCase struct {
	Forms []*Node  `json:"forms"`
	Noise uint64   `json:"noise"` // 0 = canonical rendering
	FailK int      `json:"failk,omitempty"`
	Tags  []string `json:"tags,omitempty"` // known-shape tags (known_findings.txt)
}

// zrun evaluates program text on a fresh full interpreter with trace/probe registered.
type zrunResult struct {
	res   evalResult
	trace []string
	env   *zygo.Zlisp
}

func zrun(text string, failAt int, budget int64) *zrunResult {
	out := &zrunResult{}
	env := newEnv(envFull)
	out.env = env
	env.AddFunction("trace", func(env *zygo.Zlisp, name string, a []zygo.Sexp) (zygo.Sexp, error) {
		if len(a) != 1 {
			return zygo.SexpNull, fmt.Errorf("trace wants 1 argument")
		}
		out.trace = append(out.trace, dump(a[0]))
		return a[0], nil
	})
	calls := 0
	env.AddFunction("probe", func(env *zygo.Zlisp, name string, a []zygo.Sexp) (zygo.Sexp, error) {
		calls++
		if failAt > 0 && calls == failAt {
			return zygo.SexpNull, fmt.Errorf("probe failed on call %d", calls)
		}
		if len(a) == 1 {
			return a[0], nil
		}
		return zygo.SexpNull, nil
	})
	out.res = evalString(env, text, budget)
	return out
}

// noisy re-renders canonical text with random legal whitespace and comments between tokens.
func noisy(text string, seed uint64) string {
	if seed == 0 {
		return text
	}
	var b strings.Builder
	x := seed
	next := func() uint64 {
		x ^= x << 13
		x ^= x >> 7
		x ^= x << 17
		return x
	}
	inStr, esc := false, false
	for _, r := range text {
		if inStr {
			b.WriteRune(r)
			if esc {
				esc = false
			} else if r == '\\' {
				esc = true
			} else if r == '"' {
				inStr = false
			}
			continue
		}
		if r == '"' {
			inStr = true
			b.WriteRune(r)
			continue
		}
		if r == ' ' || r == '\n' {
			switch next() % 9 {
			case 0:
				b.WriteString("  ")
			case 1:
				b.WriteString("\n")
			case 2:
				b.WriteString("\t ")
			case 3:
				b.WriteString(" /* c */ ")
			case 4:
				b.WriteString(" // note ( [ \" \n")
			case 5:
				b.WriteString("\n\n  ")
			default:
				b.WriteRune(r)
			}
			continue
		}
		b.WriteRune(r)
	}
	return b.String()
}

func progFeatures(forms []*Node) map[string]int {
	m := map[string]int{}
	for _, f := range forms {
		f.Walk(func(n *Node) {
			m[n.K]++
			if n.K == "prim" {
				m["prim:"+n.S]++
			}
			if (n.K == "break" || n.K == "continue") && n.Label != "" {
				m["labelled-"+n.K]++
			}
		})
	}
	return m
}

// compareWithRef runs the program on zygo and on R and compares value, error-vs-value and trace.
// ok=false means the case is outside the reference language / budget and says nothing.
func compareWithRef(c progCase, sigPrefix string) (f *ev.Failure, inDomain bool, info map[string]any) {
	text := noisy(RenderProgram(c.Forms), c.Noise)
	ref := newRef(200000)
	ref.failAt = c.FailK
	rv, rerrv := ref.RunProgram(c.Forms)
	if rerrv == errRefBudget {
		return nil, false, nil
	}
	if re, ok := rerrv.(*rerr); ok && re.kind == "other" {
		return nil, false, nil
	}
	z := zrun(text, c.FailK, 400000)
	defer z.env.Close()
	info = map[string]any{"ref_trace_len": len(ref.trace), "ref_err": rerrv != nil}
	canon := RenderProgram(c.Forms)
	if len(c.Tags) > 0 {
		sigPrefix += strings.Join(c.Tags, "+") + ":"
	}
	mk := func(sig, msg string, exp, obs any) *ev.Failure {
		return &ev.Failure{Sig: sigPrefix + sig, Msg: msg + "\nprogram:\n" + canon, Expected: exp, Observed: obs}
	}
	if z.res.Panic != "" {
		return mk("panic", "Go panic escaped EvalString", "value or error", z.res.Panic), true, info
	}
	if z.res.Budget {
		return nil, false, nil
	}
	refTrace := strings.Join(ref.trace, " | ")
	gotTrace := strings.Join(z.trace, " | ")
	if rerrv != nil {
		if z.res.Err == nil {
			return mk("error-swallowed", "reference raises an error ("+rerrv.Error()+") but the interpreter returns a value", "error: "+rerrv.Error(), dump(z.res.Val)), true, info
		}
		if refTrace != gotTrace {
			return mk("effects-before-error", "effects before the error differ", refTrace, gotTrace), true, info
		}
		return nil, true, info
	}
	if z.res.Err != nil {
		return mk("spurious-error", "the interpreter raises an error where the reference yields a value: "+firstLine(z.res.Err.Error()), rdump(rv), z.res.Err.Error()), true, info
	}
	if refTrace != gotTrace {
		return mk("effects", "order/number of observable effects differ", refTrace, gotTrace), true, info
	}
	if got := dump(z.res.Val); got != rdump(rv) {
		return mk("value", "result value differs", rdump(rv), got), true, info
	}
	return nil, true, info
}

func firstLine(s string) string {
	if i := strings.Index(s, "\n"); i >= 0 {
		s = s[:i]
	}
	if len(s) > 160 {
		s = s[:160]
	}
	return s
}

func checkProg(c progCase) *ev.Failure {
	f, _, _ := compareWithRef(c, "")
	return f
}

var checkProgR = reg("C02", "program", checkProg)

var c02Cfg = genCfg{
	VarNames:   []string{"a", "b", "c", "d", "x", "y", "z", "u"},
	FnNames:    []string{"f", "g", "h", "w"},
	MaxDepth:   5,
	Budget:     60,
	TraceProb:  3,
	PlantError: true,
}

func TestC02(t *testing.T) {
	p := begin(t, "C02")
	r := p.r
	r.SetRule("case = well-formed core-language program (1-8 top-level forms; def/set, let/letseq/newScope/begin, cond, and/or, for with plain and labelled break/continue nested under let/cond/newScope, fn literals, defn with fixed and variadic parameters, recursion, calls by name / through variables / computed callee, map and apply, arithmetic with boundary operands, comparisons, strings, arrays, lists, hashes) generated type-directed so that most programs run to completion, with one planted unambiguous error in some; every int/bool/str expression is wrapped in (trace ..) with probability 1/3; rendered canonically or with random legal whitespace and comments. Oracle: the reference evaluator (zref): same value (structural), same error-vs-value, same trace. Non-trivial: >=2 traced effects and >=2 nested control forms, program ran to a value or to its planted error. Distinct by canonical source text.")
	r.Assume("re-def of a name at another type in one scope, unary minus, comparisons across unrelated types, storage sharing of append/concat/rest results are outside the statement and are not generated", "error messages are not compared, only error-vs-value")
	budgetNodes := 60
	if ev.Thorough() {
		budgetNodes = 160
	}
	p.rapidSub("program", ev.Scale(6000, 1600000), func(t *rapid.T) {
		cfg := c02Cfg
		cfg.Budget = budgetNodes
		g := newGen(t, cfg)
		forms := g.program()
		c := progCase{Forms: forms, Tags: g.tags}
		if rapid.Bool().Draw(t, "noisy") {
			c.Noise = rapid.Uint64Min(1).Draw(t, "noise")
		}
		f, inDomain, info := compareWithRef(c, "")
		if !inDomain {
			r.Exclude("outside-reference-language-or-budget")
			return
		}
		feats := progFeatures(forms)
		ctl := feats["cond"] + feats["and"] + feats["or"] + feats["for"] + feats["let"] + feats["letseq"] + feats["newScope"] + feats["call"]
		nt := info["ref_trace_len"].(int) >= 2 && ctl >= 2
		var labels []string
		for k := range g.features {
			labels = append(labels, k)
		}
		if info["ref_err"].(bool) {
			labels = append(labels, "ends-in-error")
		} else {
			labels = append(labels, "ends-in-value")
		}
		if c.Noise != 0 {
			labels = append(labels, "noisy-rendering")
		}
		canon := RenderProgram(forms)
		r.Count("program", ev.Hash64(canon), nt, labels...)
		if nt {
			r.Sample("program", canon)
		}
		p.report(t, "program", c, f)
	})
	p.done()
}
