package props

import (
	"testing"

	"pgregory.net/rapid"

	"verif/harness/ev"
)

// C03 — lexical scoping: closures capture where they were made, never the caller.
// Same differential oracle as C02 (reference evaluator with real lexical environments),
// over a generator restricted to scoping forms and a deliberately tiny name pool.

var checkScopeProgR = reg("C03", "program", func(c progCase) *ev.Failure {
	f, _, _ := compareWithRef(c, "")
	return f
})

var c03Cfg = genCfg{
	VarNames:  []string{"a", "b", "c"},
	FnNames:   []string{"f", "g", "h"},
	MaxDepth:  6,
	Budget:    70,
	TraceProb: 3,
	ScopeOnly: true,
}

func TestC03(t *testing.T) {
	p := begin(t, "C03")
	r := p.r
	r.SetRule("case = program built only from fn, defn, let, letseq, newScope, for, def, set, begin, cond and integer arithmetic over the variable names {a,b,c} and function names {f,g,h} (so that shadowing and capture collisions occur in almost every program), nesting <=6: closures of 0/1/2 parameters are bound to variables, passed as arguments, returned from functions and called after their creator returned ((mk ..)), created several per activation, created in loops, defined with defn inside functions, called in tail and non-tail position. Oracle: the reference evaluator (real lexical frames): same value, same error-vs-value (unbound names), same trace. Non-trivial (measured inside the reference run): >=1 call of a closure whose creating activation had already returned AND >=1 use of a name that is bound in >=2 frames of its lexical chain. Distinct by source text.")
	r.Assume("zygo's rule that a name cannot be re-def'd at another type in one scope is outside the statement: the generator keeps one type per name per scope")
	nodes := 70
	if ev.Thorough() {
		nodes = 150
	}
	p.rapidSub("program", ev.Scale(6000, 400000), func(t *rapid.T) {
		cfg := c03Cfg
		cfg.Budget = nodes
		g := newGen(t, cfg)
		forms := g.program()
		c := progCase{Forms: forms, Tags: g.tags}
		text := RenderProgram(forms)
		ref := newRef(200000)
		ref.RunProgram(forms)
		f, inDomain, _ := compareWithRef(c, "")
		if !inDomain {
			r.Exclude("outside-reference-language-or-budget")
			return
		}
		nt := ref.escapedCalls >= 1 && ref.shadowUses >= 1
		var labels []string
		for k := range g.features {
			labels = append(labels, k)
		}
		if ref.escapedCalls > 0 {
			labels = append(labels, "escaped-closure-called")
		}
		if ref.shadowUses > 0 {
			labels = append(labels, "shadowed-name-used")
		}
		if ref.maxDepth >= 3 {
			labels = append(labels, "call-depth>=3")
		}
		r.Count("program", ev.Hash64(text), nt, labels...)
		if nt {
			r.Sample("program", text)
		}
		p.report(t, "program", c, f)
	})
	p.done()
}
