package props

import (
	"fmt"
	"strings"
	"testing"

	"github.com/glycerine/zygomys/v9/zygo"
	"pgregory.net/rapid"

	"verif/harness/ev"
)

// C04 — an evaluation that succeeds leaves nothing behind in the interpreter.
//
// A case is a history of evaluations (each: one or more forms of the full surface language)
// against one long-lived interpreter. Oracles: hook invariants after every successful step
// (no operands, one scope, no frames, no loop records, at end of main); EvalString("") and
// comment-only input return nil at any point; evaluating the forms one at a time equals
// evaluating them in one text (twin interpreters: last value and trace).

type surfStep struct {
	Forms []string `json:"forms"`
}

type surfCase struct {
	Prefix string     `json:"prefix"` // unique name prefix (the type registry is process-global)
	Steps  []surfStep `json:"steps"`
	Repeat int        `json:"repeat"` // re-evaluate the last successful step this many more times
}

type surfInterp struct {
	env   *zygo.Zlisp
	trace []string
}

func newSurfInterp() *surfInterp {
	in := &surfInterp{env: newEnv(envFull)}
	in.env.AddFunction("trace", func(env *zygo.Zlisp, name string, a []zygo.Sexp) (zygo.Sexp, error) {
		for _, x := range a {
			in.trace = append(in.trace, dump(x))
		}
		if len(a) == 0 {
			return zygo.SexpNull, nil
		}
		return a[len(a)-1], nil
	})
	return in
}

func checkSurface(c surfCase) *ev.Failure {
	a := newSurfInterp() // one evaluation per step text
	b := newSurfInterp() // one evaluation per single form
	defer a.env.Close()
	defer b.env.Close()
	mk := func(sig, msg string, exp, obs any) *ev.Failure {
		return &ev.Failure{Sig: sig, Msg: msg, Expected: exp, Observed: obs}
	}
	lastOK := ""
	diverged := false
	for si, st := range c.Steps {
		text := strings.Join(st.Forms, "\n") + "\n"
		ra := evalString(a.env, text, 200000)
		if ra.Panic != "" {
			return mk("panic:"+formKinds(st.Forms), fmt.Sprintf("step %d panics: %s", si, text), "value or error", ra.Panic)
		}
		if ra.Budget {
			return nil
		}
		// twin: the same forms one at a time
		var rb evalResult
		for _, f := range st.Forms {
			rb = evalString(b.env, f+"\n", 200000)
			if rb.Panic != "" || rb.Err != nil || rb.Budget {
				break
			}
		}
		if rb.Panic != "" {
			return mk("panic:"+formKinds(st.Forms), fmt.Sprintf("step %d (one form at a time) panics: %s", si, text), "value or error", rb.Panic)
		}
		if rb.Budget {
			return nil
		}
		if diverged {
			// after a failed step the two interpreters may hold different state (a text that does
			// not compile runs nothing, its forms one at a time run up to the bad one): only the
			// per-interpreter invariants are checked from here on
			a.trace, b.trace = nil, nil
			if ra.Err != nil {
				a.env.Clear()
			}
			if rb.Err != nil {
				b.env.Clear()
			}
			for name, in := range map[string]*surfInterp{"together": a, "separately": b} {
				if (name == "together" && ra.Err != nil) || (name == "separately" && rb.Err != nil) {
					continue
				}
				if bad := atRest(in.env); bad != "" {
					return mk("leftover:"+formKinds(st.Forms), fmt.Sprintf("after successful step %d (%s) the interpreter is not at rest: %s\nstep: %s", si, name, bad, text), "at rest", bad)
				}
			}
			continue
		}
		if (ra.Err != nil) != (rb.Err != nil) {
			return mk("together-vs-separately:"+formKinds(st.Forms), fmt.Sprintf("step %d: evaluating the forms together and one at a time disagree on success: %s", si, text), fmt.Sprint("separately: ", rb.Err), fmt.Sprint("together: ", ra.Err))
		}
		if ra.Err != nil {
			// a failed step: not this property's business; the REPL clears, so do we
			a.env.Clear()
			b.env.Clear()
			a.trace, b.trace = nil, nil
			diverged = true
			continue
		}
		if da, db := dump(ra.Val), dump(rb.Val); da != db && !strings.Contains(da, "0x") && !strings.Contains(da, "Stack") {
			return mk("together-vs-separately:"+formKinds(st.Forms), fmt.Sprintf("step %d: value differs between evaluating the forms together and one at a time: %s", si, text), db, da)
		}
		if strings.Join(a.trace, "|") != strings.Join(b.trace, "|") {
			return mk("together-vs-separately:"+formKinds(st.Forms), fmt.Sprintf("step %d: effects differ between evaluating the forms together and one at a time: %s", si, text), b.trace, a.trace)
		}
		for name, in := range map[string]*surfInterp{"together": a, "separately": b} {
			if bad := atRest(in.env); bad != "" {
				return mk("leftover:"+formKinds(st.Forms), fmt.Sprintf("after successful step %d (%s) the interpreter is not at rest: %s\nstep: %s", si, name, bad, text), "at rest", bad)
			}
		}
		// empty and comment-only input return nil, never a stale value
		for _, empty := range []string{"", "\n", "// just a comment\n", "/* block */\n", "   \n"} {
			r := evalString(a.env, empty, 1000)
			if r.Panic != "" || r.Err != nil || r.Val != zygo.SexpNull {
				return mk("empty-input-not-nil:"+formKinds(st.Forms), fmt.Sprintf("after step %d (%s), evaluating %q does not return nil", si, strings.TrimSpace(text), empty), "nil", fmt.Sprint(dumpOr(r), " err=", r.Err, " ", r.Panic))
			}
		}
		lastOK = text
	}
	// an idle interpreter does not grow with the number of evaluations it has served
	if lastOK != "" && c.Repeat > 0 {
		first := a.env.VerifDepths()
		for i := 0; i < c.Repeat; i++ {
			r := evalString(a.env, lastOK, 200000)
			if r.Panic != "" {
				return mk("panic:repeat", "repeating a successful step panics: "+lastOK, "", r.Panic)
			}
			if r.Err != nil || r.Budget {
				break // e.g. a declaration that may not be repeated: fine
			}
			d := a.env.VerifDepths()
			if d.Data != first.Data || d.Scope != first.Scope || d.Addr != first.Addr || d.Loop != first.Loop {
				return mk("grows-with-evaluations", fmt.Sprintf("stack depths after repetition %d differ from those after the first evaluation of: %s", i+1, lastOK), fmt.Sprintf("%+v", first), fmt.Sprintf("%+v", d))
			}
		}
	}
	return nil
}

// formKinds names the head symbols of the step's forms (signature of a leftover)
func formKinds(forms []string) string {
	var ks []string
	for _, f := range forms {
		f = strings.TrimLeft(f, "({ ")
		end := strings.IndexAny(f, " )}\n[")
		if end < 0 {
			end = len(f)
		}
		k := f[:end]
		if len(k) > 12 {
			k = k[:12]
		}
		if !contains(ks, k) {
			ks = append(ks, k)
		}
	}
	if len(ks) > 3 {
		ks = ks[:3]
	}
	return strings.Join(ks, ",")
}

var checkSurfaceR = reg("C04", "history", checkSurface)

// ---------------------------------------------------------------------------
// generator of surface forms

type surfGen struct {
	t      *rapid.T
	pre    string
	n      int
	state  map[string]bool // which declarations exist
	labels map[string]bool
}

func (g *surfGen) name(kind string) string {
	g.n++
	return fmt.Sprintf("%s%s%d", kind, g.pre, g.n)
}

// stmtLike: forms that are statements by nature (their value is rarely used)
func (g *surfGen) stmtLike() string {
	g.labels["statement-like"] = true
	switch rapid.IntRange(0, 15).Draw(g.t, "stmtlike") {
	case 0:
		return "{sarr[0] = 5}"
	case 1:
		return "{shash.k = 9}"
	case 2:
		return fmt.Sprintf("(var %s int64)", g.name("vv"))
	case 3:
		return fmt.Sprintf("(struct %s [(field A: int64 e:0)])", g.name("Ts"))
	case 4:
		return fmt.Sprintf("(func %s [a:int64] [n:int64] (+ a 1))", g.name("fs"))
	case 5:
		return fmt.Sprintf("(def %s (package %q {B := 2}))", g.name("pk"), g.name("pkn"))
	case 6:
		return "(mdef ma mb (list 1 2))"
	case 7:
		return "(for [(def i 0) (< i 2) (def i (+ i 1))] (trace i))"
	case 8:
		return "(assert true)"
	case 9:
		return "(begin)"
	case 10:
		return "(newScope)"
	case 11:
		return "()"
	case 12:
		return "{}"
	case 13:
		return "{xa, xb = 1, 2}"
	case 14:
		return "(range k v shash (trace k))"
	default:
		return "{for i := 0; i < 2; i++ { (trace i) }}"
	}
}

func (g *surfGen) form() string {
	switch rapid.IntRange(0, 24).Draw(g.t, "form") {
	case 0:
		g.labels["struct"] = true
		n := g.name("T")
		g.state["struct:"+n] = true
		return fmt.Sprintf("(struct %s [(field A: int64 e:0) (field B: string e:1)])\n(def i%s (%s A: 3 B: \"x\"))", n, n, n)
	case 1:
		g.labels["func"] = true
		n := g.name("f")
		decl := fmt.Sprintf("(func %s [a:int64 b:string] [n:int64] (+ a 1))\n", n)
		// called with positional or NAMED arguments, at top level, under def, in a let, in a function body
		call := rapid.SampledFrom([]string{"(%s 1 \"z\")", "(%s a:1 b:\"z\")", "(%s b:\"z\" a:2)"}).Draw(g.t, "fcall")
		call = fmt.Sprintf(call, n)
		if strings.Contains(call, "a:") {
			g.labels["func-called-with-named-arguments"] = true
		}
		switch rapid.IntRange(0, 4).Draw(g.t, "fsite") {
		case 0:
			return decl + call
		case 1:
			return decl + "(def fr" + n + " " + call + ")"
		case 2:
			return decl + "(let [q 1] " + call + ")"
		case 3:
			return decl + "(defn w" + n + " [] " + call + ")\n(w" + n + ")"
		}
		return decl + "(trace " + call + ")"
	case 2:
		g.labels["func-return"] = true
		n := g.name("r")
		return fmt.Sprintf("(func %s [a:int64] [n:int64] (return (+ a 1)))\n(trace (%s 4))", n, n)
	case 3:
		g.labels["method"] = true
		n := g.name("M")
		return fmt.Sprintf("(struct %s [(field A: int64 e:0)])\n(method [p: (* %s)] m%s [a:int64] [n:int64] (+ a 2))", n, n, n)
	case 4:
		g.labels["interface"] = true
		return fmt.Sprintf("(interface %s [(func mm [a:int64] [n:int64])])", g.name("I"))
	case 5:
		g.labels["var"] = true
		return fmt.Sprintf("(var %s %s)", g.name("v"), rapid.SampledFrom([]string{"int64", "string", "float64", "bool"}).Draw(g.t, "vt"))
	case 6:
		g.labels["package"] = true
		n := g.name("pk")
		return fmt.Sprintf("(def %s (package %q { A := 1; (defn F [x] (+ x A)) }))\n(trace (%s.F 2))", n, n+"name", n)
	case 7:
		g.labels["macro"] = true
		n := g.name("mac")
		return fmt.Sprintf("(defmac %s [x] ^(+ ~x 1))\n(trace (%s 4))", n, n)
	case 8:
		g.labels["range"] = true
		return "(range k v shash (trace k v))"
	case 9:
		g.labels["mdef"] = true
		return "(mdef ma mb (list 1 2))"
	case 10:
		g.labels["infix"] = true
		return rapid.SampledFrom([]string{"{xa, xb = 1, 2}", "{ya = 3; ya + 1}", "{sarr[1] = 6}", "{shash.k = 8}", "{ya = 1; ya++; ya}", "{if ya > 0 { 1 } else { 2 }}", "{for i := 0; i < 3; i++ { ya += i }}", "{ya = sarr[0] + shash.k}"}).Draw(g.t, "infix")
	case 11:
		return rapid.SampledFrom([]string{"(assert true)", "(eval (quote (+ 1 2)))", "(begin)", "(newScope)", "()", "{}", "(begin 1 2)", "(newScope (def q 1) q)",
			// forms with more (or fewer) parts than usual: whatever they mean, a successful one leaves nothing behind
			"(quote a b c)", "(quote)", "(def la 0) (def lb 0) (la lb = 1 2)", "(def la 0) (la = 5)", "(def la 0) (def lb 0) (def lc 0) (la lb lc = 1 2 3)",
			"(begin (quote x) (quote y))", "(cond true 1)", "(cond false 1)", "(and)", "(or)", "(and 1)", "(let [] 1)", "(letseq [] 1)", "(list)", "(hash)", "[]",
			"(macexpand (quote (+ 1 2)))", "(str)", "(fn [] 1)", "((fn [] 1))", "((fn [& r] r))", "(apply + [1 2])", "(map (fn [x] x) [])"}).Draw(g.t, "misc")
	case 12, 13:
		// a statement-like form in a NON-FINAL position of a body that is evaluated in an argument position
		g.labels["statement-in-nonfinal-body-position-under-argument"] = true
		n := g.name("w")
		body := g.stmtLike()
		if rapid.Bool().Draw(g.t, "two") {
			body += " " + g.stmtLike()
		}
		switch rapid.IntRange(0, 3).Draw(g.t, "argctx") {
		case 0:
			return fmt.Sprintf("(defn %s [] %s 1)\n(trace (+ 10 (%s)))", n, body, n)
		case 1:
			return fmt.Sprintf("(trace (list 1 2 (begin %s 3)))", body)
		case 2:
			return fmt.Sprintf("(trace (+ 10 ((fn [] %s 1))))", body)
		default:
			return fmt.Sprintf("(trace (+ 10 (let [q 1] %s q)))", body)
		}
	case 14:
		g.labels["loop-with-jumps"] = true
		return rapid.SampledFrom([]string{
			"(for [(def i 0) (< i 3) (def i (+ i 1))] (let [x 1] (cond (== i 1) (break) nil)) (trace i))",
			"(for outer: [(def i 0) (< i 2) (def i (+ i 1))] (for [(def j 0) (< j 2) (def j (+ j 1))] (cond (== j 1) (continue outer:) nil) (trace j)))",
			"(for [(def i 0) (< i 3) (def i (+ i 1))] (newScope (def z i) (cond (== z 0) (continue) nil) (trace z)))",
			"(for [(def i 0) (< i 4) (def i (+ i 1))] (let [sq (* i i)] (and (> sq 3) (break))) (trace i))",
			"(for [(def i 0) (< i 3) (def i (+ i 1))] (letseq [a i b a] (or (< b 1) (continue)) (trace b)))",
			"(for lp: [(def i 0) (< i 3) (def i (+ i 1))] (newScope (let [q i] (and (== q 1) true (break lp:)))) (trace i))",
			"(for [(def i 0) (< i 3) (def i (+ i 1))] (cond (let [q i] (and (== q 1) (continue))) 1 2) (trace i))",
		}).Draw(g.t, "loop")
	case 23:
		// control transfers written inside a macro expansion, the macro called under extra scopes
		g.labels["jump-or-tail-call-from-macro-expansion"] = true
		n := g.name("mj")
		switch rapid.IntRange(0, 4).Draw(g.t, "mjshape") {
		case 0:
			return fmt.Sprintf("(defmac %s [c] ^(cond ~c (break) nil))\n(for [(def i 0) (< i 5) (def i (+ i 1))] (let [j (* i 2)] (%s (> j 4))) (trace i))", n, n)
		case 1:
			return fmt.Sprintf("(defmac %s [c] ^(cond ~c (continue) nil))\n(for [(def i 0) (< i 3) (def i (+ i 1))] (newScope (def z i) (%s (== z 0)) (trace z)))", n, n)
		case 2:
			return fmt.Sprintf("(defmac %s [c] ^(and ~c (continue outer:)))\n(for outer: [(def i 0) (< i 2) (def i (+ i 1))] (range k v shash (letseq [q i] (%s (== q 0))) (trace k)))", n, n)
		case 3:
			return fmt.Sprintf("(defmac %s [f n] ^(~f (- ~n 1)))\n(defn f%s [n] (let [m n] (newScope (cond (<= m 0) 0 (%s f%s m)))))\n(trace (f%s 4))", n, n, n, n, n)
		}
		return fmt.Sprintf("(defmac %s [c] ^(cond ~c (break lp:) nil))\n(defn f%s [x] (for lp: [(def i 0) (< i 5) (def i (+ i 1))] (let [j (* i 2)] (letseq [k j] (%s (> k 4))))) x)\n(trace (f%s 7))", n, n, n, n)
	case 24:
		// control transfers out of / inside a package body; declarations without a body; splice at top level
		g.labels["package-body-jump-or-bodiless-func"] = true
		n := g.name("pj")
		switch rapid.IntRange(0, 4).Draw(g.t, "pjshape") {
		case 4:
			// a splice with no template around it: whatever it means, a successful one leaves nothing behind
			return fmt.Sprintf("(def l%s (list 1 2))\n^~@l%s\n(trace 3)", n, n)
		case 0:
			return fmt.Sprintf("(for [(def i 0) (< i 3) (def i (+ i 1))] (package %q (def A i) (cond (== i 1) (break) nil)) (trace i))", n)
		case 1:
			return fmt.Sprintf("(for [(def i 0) (< i 3) (def i (+ i 1))] (package %q (def A i) (cond (== i 1) (continue) nil)) (trace i))", n)
		case 2:
			return fmt.Sprintf("(defn f%s [n] (package %q (def A n) (cond (<= n 0) 0 (f%s (- n 1)))))\n(f%s 3)\n(trace 1)", n, n, n, n)
		}
		return fmt.Sprintf("(func f%s [] [a:int64 b:int64])\n(f%s)\n(trace 2)", n, n)
	case 15:
		g.labels["tail-call"] = true
		n := g.name("tc")
		switch rapid.IntRange(0, 3).Draw(g.t, "tcshape") {
		case 0:
			return fmt.Sprintf("(defn %s [n] (let [m (- n 1)] (or (< m 0) (%s m))))\n(trace (%s 4))", n, n, n)
		case 1:
			return fmt.Sprintf("(defn %s [n] (letseq [m n k m] (newScope (and (> k 0) (%s (- k 1))))))\n(trace (%s 4))", n, n, n)
		}
		return fmt.Sprintf("(defn %s [n] (let [m n] (newScope (cond (<= m 0) 0 (%s (- m 1))))))\n(trace (%s 5))", n, n, n)
	case 16:
		g.labels["closure"] = true
		return "(def mk (fn [a] (fn [] (set a (+ a 1)) a)))\n(def c1 (mk 1))\n(trace (c1) (c1))"
	case 17:
		return g.stmtLike()
	default:
		// core expression
		return rapid.SampledFrom([]string{"(trace (+ 1 2))", "(def ya 1)", "(set ya (+ ya 1))", "(trace (map (fn [x] (* x 2)) [1 2 3]))", "(trace (apply + [1 2]))", "(let [a 1 b 2] (trace (+ a b)))", "(trace (cond (> ya 100) 1 2))", "(trace (and 1 2 3))", "(hset shash k2: 4)", "(trace (len sarr))", "(trace (aget sarr 0))", "[1 2 3]", "(trace (str ya))"}).Draw(g.t, "core")
	}
}

func genSurfCase(t *rapid.T) (surfCase, []string) {
	g := &surfGen{t: t, pre: fmt.Sprintf("q%d", rapid.IntRange(0, 1<<30).Draw(t, "pre")), state: map[string]bool{}, labels: map[string]bool{}}
	c := surfCase{Prefix: g.pre}
	c.Steps = append(c.Steps, surfStep{Forms: []string{"(def sarr [1 2 3])", "(def shash (hash k: 1))", "(def ya 0)"}})
	n := rapid.IntRange(1, 12).Draw(t, "nsteps")
	for i := 0; i < n; i++ {
		var st surfStep
		for j := 0; j < rapid.IntRange(1, 3).Draw(t, "nforms"); j++ {
			for _, f := range strings.Split(g.form(), "\n") {
				st.Forms = append(st.Forms, f)
			}
		}
		c.Steps = append(c.Steps, st)
	}
	if rapid.IntRange(0, 3).Draw(t, "rep") == 0 {
		c.Repeat = rapid.IntRange(1, 20).Draw(t, "nrep")
		if ev.Thorough() {
			c.Repeat *= 10
		}
	}
	var labels []string
	for l := range g.labels {
		labels = append(labels, l)
	}
	sortStrings(labels)
	return c, labels
}

func TestC04(t *testing.T) {
	p := begin(t, "C04")
	r := p.r
	r.SetRule("case = history of 2-13 evaluations on one interpreter; each step holds 1-3 items of the full surface language: struct / func / func with return / method / interface / var / package declarations with generated names and uses of them, defmac + macro call, range, mdef, infix blocks (multiple assignment, element and field assignment, if/else, go-style for, ++), assert, eval, empty begin/newScope/()/{}, loops with break/continue out of nested scopes, tail calls through let/newScope, closures, and statement-like forms placed in NON-FINAL positions of bodies that are evaluated in an argument position ((+ 10 (f)), (list 1 2 (begin .. 3)), ((fn [] .. 1)), (let [..] .. q)). After every successful step: VM stacks at rest (hooks), EvalString of empty / whitespace / comment-only input returns nil, and the step evaluated as one text equals the step evaluated one form at a time on a twin (value, trace, success). Sometimes the last step is repeated 1-20 (thorough: 200) times and the stack depths must not change. Non-trivial: >=3 evaluations of >=2 different declaration kinds and a control transfer out of a nested scope or a statement-like form under an argument. Distinct by history text.")
	p.rapidSub("history", ev.Scale(2500, 400000), func(t *rapid.T) {
		c, labels := genSurfCase(t)
		kinds := 0
		for _, l := range []string{"struct", "func", "func-return", "method", "interface", "var", "package", "macro"} {
			if contains(labels, l) {
				kinds++
			}
		}
		transfer := contains(labels, "loop-with-jumps") || contains(labels, "tail-call") || contains(labels, "func-return") || contains(labels, "statement-in-nonfinal-body-position-under-argument")
		nt := len(c.Steps) >= 3 && kinds >= 2 && transfer
		var sb strings.Builder
		for _, s := range c.Steps {
			sb.WriteString(strings.Join(s.Forms, " ") + " || ")
		}
		// names carry a random prefix; distinctness by structure
		key := strings.ReplaceAll(sb.String(), c.Prefix, "")
		r.Count("history", ev.Hash64(key), nt, labels...)
		if nt {
			r.Sample("history", c)
		}
		p.report(t, "history", c, checkSurface(c))
	})
	p.done()
}
