package props

import (
	"fmt"
	"strings"
	"testing"

	"github.com/glycerine/zygomys/v9/zygo"
	"pgregory.net/rapid"

	"verif/harness/ev"
)

// C05 — errors are contained: a failed evaluation restores the interpreter.

// ---------------------------------------------------------------------------
// sub-check inject: failure at the k-th call of a host function, for every k

type injectCase struct {
	Forms   []*Node  `json:"forms"`
	Battery []*Node  `json:"battery"`
	Names   []string `json:"names"` // global names the program may define
	FailK   int      `json:"failk"` // 0 = no injected failure (program may hold a planted error)
	Mode    string   `json:"mode"`  // error | panic
	Whole   bool     `json:"whole"` // one EvalString for the whole program, or one per top-level form
}

type c05Interp struct {
	env    *zygo.Zlisp
	trace  []string
	calls  int
	failAt int
	mode   string
}

func newC05Interp(failAt int, mode string) *c05Interp {
	in := &c05Interp{env: newEnv(envFull), failAt: failAt, mode: mode}
	in.env.AddFunction("trace", func(env *zygo.Zlisp, name string, a []zygo.Sexp) (zygo.Sexp, error) {
		if len(a) != 1 {
			return zygo.SexpNull, fmt.Errorf("trace wants 1 argument")
		}
		in.trace = append(in.trace, dump(a[0]))
		return a[0], nil
	})
	in.env.AddFunction("probe", func(env *zygo.Zlisp, name string, a []zygo.Sexp) (zygo.Sexp, error) {
		in.calls++
		if in.failAt > 0 && in.calls == in.failAt {
			if in.mode == "panic" {
				panic(fmt.Sprintf("probe panics on call %d", in.calls))
			}
			return zygo.SexpNull, fmt.Errorf("probe failed on call %d", in.calls)
		}
		if len(a) == 1 {
			return a[0], nil
		}
		return zygo.SexpNull, nil
	})
	// try: a host function that calls back into the VM and contains the failure
	in.env.AddFunction("try", func(env *zygo.Zlisp, name string, a []zygo.Sexp) (zygo.Sexp, error) {
		if len(a) != 1 {
			return zygo.SexpNull, fmt.Errorf("try wants 1 argument")
		}
		fn, ok := a[0].(*zygo.SexpFunction)
		if !ok {
			return zygo.SexpNull, fmt.Errorf("try wants a function")
		}
		v, err := env.Apply(fn, nil)
		if err != nil {
			if zygo.VerifBudgetExceeded() {
				return zygo.SexpNull, err
			}
			in.trace = append(in.trace, "caught")
			return &zygo.SexpInt{Val: -1}, nil
		}
		return v, nil
	})
	return in
}

func (in *c05Interp) eval(text string) evalResult {
	return evalString(in.env, text, 400000)
}

// atRest checks the hook invariants of an idle interpreter.
func atRest(env *zygo.Zlisp) string {
	d := env.VerifDepths()
	var bad []string
	if d.Data != 0 {
		bad = append(bad, fmt.Sprintf("data stack holds %d operands", d.Data))
	}
	if d.Scope != 1 {
		bad = append(bad, fmt.Sprintf("scope stack depth %d (want 1: global)", d.Scope))
	}
	if d.Addr != 0 {
		bad = append(bad, fmt.Sprintf("%d call frames left", d.Addr))
	}
	if d.Loop != 0 {
		bad = append(bad, fmt.Sprintf("%d loop records left", d.Loop))
	}
	if !d.AtMain {
		bad = append(bad, "current function is not main")
	}
	if !d.AtEnd {
		bad = append(bad, fmt.Sprintf("pc=%d is not at the end of main", d.PC))
	}
	return strings.Join(bad, "; ")
}

func checkInject(c injectCase) *ev.Failure {
	// reference run with the same injected failure
	ref := newRef(300000)
	ref.failAt = c.FailK
	_, refErr := ref.RunProgram(c.Forms)
	if refErr == errRefBudget {
		return nil
	}
	if re, ok := refErr.(*rerr); ok && re.kind == "other" {
		return nil
	}
	in := newC05Interp(c.FailK, c.Mode)
	defer in.env.Close()
	canon := RenderProgram(c.Forms)
	sigKind := "probe-" + c.Mode
	if c.FailK == 0 {
		sigKind = "script-error"
	}
	mk := func(sig, msg string, exp, obs any) *ev.Failure {
		return &ev.Failure{Sig: sigKind + ":" + sig, Msg: fmt.Sprintf("failK=%d mode=%s whole=%v: %s\nprogram:\n%s", c.FailK, c.Mode, c.Whole, msg, canon), Expected: exp, Observed: obs}
	}
	// run the program
	var firstErr error
	if c.Whole {
		r := in.eval(canon)
		if r.Panic != "" {
			return mk("panic-escapes", "a Go panic escaped EvalString", "error", r.Panic)
		}
		if r.Budget {
			return nil
		}
		firstErr = r.Err
	} else {
		for _, f := range c.Forms {
			r := in.eval(f.Render() + "\n")
			if r.Panic != "" {
				return mk("panic-escapes", "a Go panic escaped EvalString", "error", r.Panic)
			}
			if r.Budget {
				return nil
			}
			if r.Err != nil {
				firstErr = r.Err
				break
			}
		}
	}
	// (1) errors are never swallowed
	if refErr != nil && firstErr == nil {
		return mk("error-swallowed", "the reference run fails ("+refErr.Error()+") but the evaluation returned a value", "an error", "value")
	}
	if refErr == nil && firstErr != nil {
		return mk("spurious-error", "evaluation fails where the reference succeeds: "+firstLine(firstErr.Error()), "value", firstErr.Error())
	}
	if refErr == nil && ref.caught == 0 {
		return nil // nothing failed: not this check's business (C02)
	}
	if refErr == nil {
		sigKind += "-contained-by-host"
	}
	if strings.Join(ref.trace, "|") != strings.Join(in.trace, "|") {
		return mk("effects-before-failure", "effects up to the failure differ from the reference", ref.trace, in.trace)
	}
	// (2) the interpreter is at rest
	if bad := atRest(in.env); bad != "" {
		return mk("not-at-rest", "after the failed evaluation the interpreter is not at rest: "+bad, "at rest", bad)
	}
	// EvalString("") returns nil
	if r := in.eval(""); r.Panic != "" || r.Err != nil || r.Val != zygo.SexpNull {
		return mk("empty-input-after-failure", "EvalString(\"\") after the failure does not return nil", "nil", fmt.Sprint(dumpOr(r), " err=", r.Err, " ", r.Panic))
	}
	// (3) state: every global equals the reference's global frame at the moment of failure
	for _, name := range c.Names {
		want, bound := ref.global.vars[name]
		r := in.eval(name + "\n")
		if r.Panic != "" {
			return mk("panic-escapes", "reading global "+name+" panics", "", r.Panic)
		}
		if bound {
			if r.Err != nil {
				return mk("definition-lost", "global "+name+" was defined before the failure but is gone", rdump(want), firstLine(r.Err.Error()))
			}
			if got := dump(r.Val); got != rdump(want) {
				return mk("state-differs", "global "+name+" differs from the reference state at the failure", rdump(want), got)
			}
		} else if r.Err == nil {
			return mk("effect-after-failure", "global "+name+" is bound although it was not defined before the failure", "unbound", dump(r.Val))
		}
	}
	// (4) future: the battery behaves as on the reference continuation
	ref.trace = nil
	in.trace = nil
	ref.budget += 300000
	for i, b := range c.Battery {
		rv, rerrv := ref.eval(b, ref.global)
		if rerrv == errRefBudget {
			return nil
		}
		if re, ok := rerrv.(*rerr); ok && re.kind == "other" {
			return nil
		}
		if _, isCtl := rerrv.(*rctl); isCtl {
			return nil
		}
		r := in.eval(b.Render() + "\n")
		if r.Panic != "" {
			return mk("panic-escapes", fmt.Sprintf("battery form %d panics: %s", i, b.Render()), "", r.Panic)
		}
		if r.Budget {
			return nil
		}
		if (rerrv != nil) != (r.Err != nil) {
			return mk("later-evaluation-differs", fmt.Sprintf("after the failure, %s: error-vs-value differs", b.Render()), fmt.Sprint(rerrv), fmt.Sprint(r.Err))
		}
		if strings.Join(ref.trace, "|") != strings.Join(in.trace, "|") {
			return mk("later-evaluation-differs", fmt.Sprintf("after the failure, %s: effects differ", b.Render()), ref.trace, in.trace)
		}
		if rerrv == nil {
			if got := dump(r.Val); got != rdump(rv) {
				return mk("later-evaluation-differs", fmt.Sprintf("after the failure, %s: value differs", b.Render()), rdump(rv), got)
			}
		}
		if bad := atRest(in.env); bad != "" {
			return mk("not-at-rest", fmt.Sprintf("after battery form %d the interpreter is not at rest: %s", i, bad), "at rest", bad)
		}
	}
	return nil
}

func dumpOr(r evalResult) string {
	if r.Val == nil {
		return "<go-nil>"
	}
	return dump(r.Val)
}

var checkInjectR = reg("C05", "inject", checkInject)

// ---------------------------------------------------------------------------
// sub-check nothing-ran: compile / parse errors against a twin that never saw the failing text

type nothingRanCase struct {
	Prefix  []*Node  `json:"prefix"`
	Failing string   `json:"failing"` // text that must fail without having run anything
	Kind    string   `json:"kind"`    // compile | parse
	Battery []*Node  `json:"battery"`
	Names   []string `json:"names"`
	Extra   string   `json:"extra,omitempty"`         // text evaluated after the prefix on both interpreters (macro definitions)
	ExtraB  []string `json:"extra_battery,omitempty"` // later evaluations given as text (macro uses)
	Bare    string   `json:"bare,omitempty"`          // the malformed form alone, when it fails in every context: then the wrapped text must fail too
}

var malformedForms = []string{"(let)", "(let [a])", "(let [a 1])", "(cond 1 2)", "(for [1 2])", "(for)", "(break 5)", "(break)", "(continue)", "(def)", "(def a)", "(set)", "(fn)", "(fn a 1)", "(defn)", "(defn zq)", "(letseq [1 2] 3)", "(mdef)", "(assert)", "(assert 1 2)", "(defmac)", "(quote", "(for [(def i 0) true] 1)"}

var parseBroken = []string{")", "(a b))", `"\q"`, "1abc", "'ab'", "#", "(a ]", "[1 2)", "{a b", "(a \\ b c)", "~", "(1 . 2)..", "^"}

func checkNothingRan(c nothingRanCase) *ev.Failure {
	a := newC05Interp(0, "error") // sees the failing text
	b := newC05Interp(0, "error") // twin: never sees it
	defer a.env.Close()
	defer b.env.Close()
	pre := RenderProgram(c.Prefix)
	mk := func(sig, msg string, exp, obs any) *ev.Failure {
		return &ev.Failure{Sig: c.Kind + ":" + sig, Msg: fmt.Sprintf("%s\nprefix:\n%sfailing text: %s", msg, pre, c.Failing), Expected: exp, Observed: obs}
	}
	for _, in := range []*c05Interp{a, b} {
		if r := in.eval(pre); r.Panic != "" || r.Err != nil || r.Budget {
			return nil // prefix itself fails: not this sub-check
		}
		if c.Extra != "" {
			if r := in.eval(c.Extra); r.Panic != "" || r.Err != nil || r.Budget {
				return nil
			}
		}
	}
	r := a.eval(c.Failing)
	if r.Panic != "" {
		return mk("panic-escapes", "a Go panic escaped EvalString", "error", r.Panic)
	}
	if r.Err == nil {
		if c.Bare != "" {
			// every wrapper evaluates the malformed form as code: if the form alone is an
			// error, so is the wrapped text; a value here means the error was swallowed
			w := newC05Interp(0, "error")
			defer w.env.Close()
			if rp := w.eval(pre); rp.Panic == "" && rp.Err == nil && !rp.Budget {
				if rb := w.eval(c.Bare); rb.Err != nil && rb.Panic == "" {
					return mk("error-swallowed", "the form "+c.Bare+" alone is an error ("+firstLine(rb.Err.Error())+") but buried in code it evaluates to a value", "an error", dumpOr(r))
				}
			}
		}
		// the text was accepted after all: then it is not a failing text; nothing to check
		return nil
	}
	if bad := atRest(a.env); bad != "" {
		return mk("not-at-rest", "after the "+c.Kind+" error the interpreter is not at rest: "+bad, "at rest", bad)
	}
	if r := a.eval(""); r.Panic != "" || r.Err != nil || r.Val != zygo.SexpNull {
		return mk("empty-input-after-failure", "EvalString(\"\") after the failure does not return nil", "nil", fmt.Sprint(dumpOr(r), " err=", r.Err, " ", r.Panic))
	}
	if strings.Join(a.trace, "|") != strings.Join(b.trace, "|") {
		return mk("failing-text-had-effects", "the failing text produced effects", b.trace, a.trace)
	}
	for _, name := range c.Names {
		ra, rb := a.eval(name+"\n"), b.eval(name+"\n")
		if ra.Panic != "" {
			return mk("panic-escapes", "reading "+name, "", ra.Panic)
		}
		if (ra.Err != nil) != (rb.Err != nil) || (ra.Err == nil && dump(ra.Val) != dump(rb.Val)) {
			return mk("state-differs", "global "+name+" differs from the twin that never saw the failing text", fmt.Sprint(dumpOr(rb), rb.Err), fmt.Sprint(dumpOr(ra), ra.Err))
		}
	}
	a.trace, b.trace = nil, nil
	for _, text := range c.ExtraB {
		ra, rb := a.eval(text+"\n"), b.eval(text+"\n")
		if ra.Panic != "" {
			return mk("panic-escapes", "later evaluation panics: "+text, "", ra.Panic)
		}
		if rb.Panic != "" || ra.Budget || rb.Budget {
			return nil
		}
		if (ra.Err != nil) != (rb.Err != nil) || (ra.Err == nil && dump(ra.Val) != dump(rb.Val)) || strings.Join(a.trace, "|") != strings.Join(b.trace, "|") {
			return mk("later-evaluation-differs", "after the failure, "+text+" behaves differently from the twin", fmt.Sprint(dumpOr(rb), " err=", rb.Err, " ", b.trace), fmt.Sprint(dumpOr(ra), " err=", ra.Err, " ", a.trace))
		}
	}
	for i, f := range c.Battery {
		ra, rb := a.eval(f.Render()+"\n"), b.eval(f.Render()+"\n")
		if ra.Panic != "" {
			return mk("panic-escapes", fmt.Sprintf("battery form %d panics: %s", i, f.Render()), "", ra.Panic)
		}
		if rb.Panic != "" || ra.Budget || rb.Budget {
			return nil
		}
		if (ra.Err != nil) != (rb.Err != nil) || (ra.Err == nil && dump(ra.Val) != dump(rb.Val)) || strings.Join(a.trace, "|") != strings.Join(b.trace, "|") {
			return mk("later-evaluation-differs", fmt.Sprintf("after the failure, %s behaves differently from the twin", f.Render()), fmt.Sprint(dumpOr(rb), " err=", rb.Err, " ", b.trace), fmt.Sprint(dumpOr(ra), " err=", ra.Err, " ", a.trace))
		}
		if bad := atRest(a.env); bad != "" {
			return mk("not-at-rest", fmt.Sprintf("after battery form %d: %s", i, bad), "at rest", bad)
		}
	}
	return nil
}

var checkNothingRanR = reg("C05", "nothingran", checkNothingRan)

// ---------------------------------------------------------------------------

var c05Cfg = genCfg{
	VarNames:   []string{"a", "b", "c", "d", "x", "y"},
	FnNames:    []string{"f", "g", "h"},
	MaxDepth:   4,
	Budget:     50,
	TraceProb:  4,
	PlantError: false,
	Probes:     true,
}

func genBattery(g *gen) []*Node {
	var bat []*Node
	g.budget += 30
	g.cfg.Probes = false
	for i := 0; i < 2+g.pick(3, "nbat"); i++ {
		switch g.pick(4, "batk") {
		case 0:
			bat = append(bat, g.stmt(1))
		case 1:
			if c := g.callNamed("int", 1); c != nil {
				bat = append(bat, NTrace(c))
				continue
			}
			bat = append(bat, g.expr("int", 2))
		default:
			bat = append(bat, g.expr(rapid.SampledFrom([]string{"int", "bool", "arr"}).Draw(g.t, "batt"), 2))
		}
	}
	bat = append(bat, NDef("fresh9", NInt(5)), NPrim("+", NVar("fresh9"), NInt(1)))
	// known finding (see C02): a break inside a call argument does not compile
	for _, n := range breaksCrossingCallArgs(bat) {
		n.K, n.Label = "nil", ""
	}
	return bat
}

func globalNames(g *gen) []string {
	var names []string
	root := g.scope
	for root.parent != nil {
		root = root.parent
	}
	for n := range root.vars {
		names = append(names, n)
	}
	for _, n := range append(append([]string{}, g.cfg.VarNames...), g.cfg.FnNames...) {
		if !contains(names, n) {
			names = append(names, n)
		}
	}
	sortStrings(names)
	return names
}

// wrapMalformed buries a malformed form inside pure (effect-free) context
func wrapMalformed(t *rapid.T, bad string) string {
	for i := rapid.IntRange(0, 3).Draw(t, "wrapdepth"); i > 0; i-- {
		switch rapid.IntRange(0, 11).Draw(t, "wrapk") {
		case 8:
			// unquoted inside a template: still code
			bad = "^(1 ~" + bad + " 3)"
		case 9:
			bad = "^[~" + bad + "]"
		case 10:
			bad = "(len ^(a ~@" + bad + "))"
		case 11:
			bad = "^{k: ~" + bad + "}"
		case 0:
			bad = "(and 1 " + bad + ")"
		case 1:
			bad = "(or false " + bad + ")"
		case 2:
			bad = "(cond true " + bad + " 3)"
		case 3:
			bad = "(let [q 1] " + bad + ")"
		case 4:
			bad = "((fn [q] " + bad + ") 1)"
		case 5:
			bad = "(+ 1 " + bad + ")"
		case 6:
			bad = "(for [(def i 0) (< i 1) (def i (+ i 1))] " + bad + ")"
		default:
			bad = "(begin 1 " + bad + ")"
		}
	}
	return bad
}

func TestC05(t *testing.T) {
	p := begin(t, "C05")
	r := p.r
	r.SetRule("inject: generated core-language program with (probe k) calls at all depths (arguments, loop bodies, let bindings, map/apply callbacks, function bodies, and in a lazy argument kept in a global that is forced in the program and again by the later evaluations) = prefix; for EVERY k from 1 to the number of probe calls of the fault-free reference run (<=12) the host function probe fails on its k-th call, by returning an error or by a Go panic; the program is given as one text or one text per top-level form. Oracles: the evaluation returns an error (never a value); effects up to the failure equal the reference run with the same injected failure; VM stacks at rest (hooks); EvalString(\"\") = nil; every global of the name pool is bound iff bound in the reference's global frame at the failure, with an equal value; a generated battery of later evaluations (calls of the prefix's functions, loops, fresh definitions) agrees with the reference continuation form by form. nothingran: a malformed special form (23 shapes) buried under and/or/cond/let/fn/for/argument context or unquoted inside a list/array/hash template (the wrapped text must fail whenever the form alone fails: errors are never swallowed), or a text with a parse error (13 shapes), evaluated after a generated prefix; twin interpreter that never saw the failing text is the oracle for state and battery. Non-trivial: failure at call depth >=1 or inside a loop/let/callback and the prefix defined >=2 things. Distinct by (program text, k, mode).")
	r.Assume("failing texts of the nothingran sub-check contain no effects before the malformed form, so 'nothing ran' holds whether zygo reports the error at compile time or at run time", "defmac appears only in the nothingran sub-check, as a definition made by an EARLIER evaluation and as a redefinition that fails to compile (a defmac that succeeds takes effect at compile time, before the rest of its text runs)")

	p.rapidSub("inject", ev.Scale(1200, 160000), func(t *rapid.T) {
		cfg := c05Cfg
		if rapid.IntRange(0, 4).Draw(t, "scripterr") == 0 {
			cfg.PlantError = true
		}
		g := newGen(t, cfg)
		forms := g.program()
		if len(g.tags) > 0 {
			r.Exclude("known-shape:" + g.tags[0])
			return
		}
		battery := genBattery(g)
		names := globalNames(g)
		if rapid.IntRange(0, 3).Draw(t, "savedThunk") == 0 {
			// a lazy argument object kept in a global: its forcing fails inside the program (when
			// the failure point is its probe) and it is forced again by later evaluations, which
			// must evaluate the expression then, as nothing of it was completed before
			g.probeN++
			thunkExpr := NPrim("+", NInt(1000), NTrace(&Node{K: "probe", I: int64(g.probeN)}))
			pre := []*Node{
				{K: "defn", S: "keepq", Names: []string{"#x"}, Kids: []*Node{NVar("#x")}},
				NDef("savedq", NCall(NVar("keepq"), thunkExpr)),
			}
			use := NTrace(NPrim("force", NVar("savedq")))
			pos := rapid.IntRange(0, len(forms)-1).Draw(t, "forcePos")
			nf := append([]*Node{}, pre...)
			nf = append(nf, forms[:pos]...)
			nf = append(nf, use)
			nf = append(nf, forms[pos:]...)
			forms = nf
			battery = append([]*Node{use}, battery...)
			battery = append(battery, NTrace(NPrim("+", NPrim("force", NVar("savedq")), NInt(1))))
		}
		// fault-free reference run: how many probe calls?
		ref := newRef(300000)
		if _, err := ref.RunProgram(forms); err == errRefBudget {
			r.Exclude("budget")
			return
		}
		n := ref.probeCalls
		if n > 12 {
			n = 12
		}
		whole := rapid.Bool().Draw(t, "whole")
		mode := rapid.SampledFrom([]string{"error", "error", "panic"}).Draw(t, "mode")
		text := RenderProgram(forms)
		defined := 0
		for _, nm := range names {
			if _, ok := ref.global.vars[nm]; ok {
				defined++
			}
		}
		feats := progFeatures(forms)
		ks := []int{}
		for k := 1; k <= n; k++ {
			ks = append(ks, k)
		}
		if g.planted {
			ks = append(ks, 0)
		}
		if len(ks) == 0 {
			r.Exclude("no-failure-point")
			return
		}
		for _, k := range ks {
			c := injectCase{Forms: forms, Battery: battery, Names: names, FailK: k, Mode: mode, Whole: whole}
			nt := defined >= 2 && (feats["for"]+feats["let"]+feats["letseq"]+feats["fn"]+feats["defn"]+feats["prim:map"]+feats["prim:apply"] >= 1)
			labels := []string{"mode:" + mode, fmt.Sprintf("whole:%v", whole)}
			if k == 0 {
				labels = append(labels, "kind:script-error")
			} else {
				labels = append(labels, "kind:host-function-failure")
			}
			if feats["prim:map"]+feats["prim:apply"] > 0 {
				labels = append(labels, "has-callback-into-vm")
			}
			if feats["for"] > 0 {
				labels = append(labels, "has-loop")
			}
			r.Count("inject", ev.Hash64(text, fmt.Sprint(k), mode, fmt.Sprint(whole)), nt, labels...)
			if nt {
				r.Sample("inject", map[string]any{"program": text, "failK": k, "mode": mode, "of": n})
			}
			p.report(t, "inject", c, checkInject(c))
		}
	})

	p.rapidSub("nothingran", ev.Scale(1500, 200000), func(t *rapid.T) {
		cfg := c05Cfg
		cfg.Probes = false
		cfg.Budget = 30
		g := newGen(t, cfg)
		forms := g.program()
		battery := genBattery(g)
		names := globalNames(g)
		c := nothingRanCase{Prefix: forms, Battery: battery, Names: names}
		labelsRedef := false
		if rapid.IntRange(0, 2).Draw(t, "parse") == 0 {
			c.Kind = "parse"
			c.Failing = rapid.SampledFrom(parseBroken).Draw(t, "broken")
			if rapid.Bool().Draw(t, "afterGood") {
				c.Failing = "(+ 1 2) " + c.Failing
			}
		} else {
			c.Kind = "compile"
			bare := rapid.SampledFrom(malformedForms).Draw(t, "malformed")
			c.Failing = wrapMalformed(t, bare)
			if rapid.IntRange(0, 3).Draw(t, "macroRedef") == 0 {
				// a macro (and a function) defined earlier; the failing text is a REdefinition whose body does
				// not compile, at top level or under eval: the earlier definitions must survive
				c.Extra = "(defmac mq5 [x] ^(+ ~x 1))\n(defn fq5 [x] (+ x 1))"
				c.ExtraB = []string{"(trace (mq5 4))", "(trace (fq5 4))", "(defn gq5 [y] (mq5 y))", "(trace (gq5 1))"}
				target := rapid.SampledFrom([]string{"(defmac mq5 [x] %s ^(* 3 ~x))", "(defn fq5 [x] %s (* 3 x))", "(defmac mq5 [x] ^(* 3 ~x) %s)"}).Draw(t, "redef")
				c.Failing = fmt.Sprintf(target, c.Failing)
				if rapid.IntRange(0, 3).Draw(t, "redefEval") == 0 {
					c.Failing = "(eval (quote " + c.Failing + "))"
				}
				labelsRedef = true
				// a definition's body is not evaluated, and some call shapes are compiled only when they
				// run: the redefinition may legitimately succeed, so the must-fail rule does not apply
				c.Bare = ""
			}
			if !labelsRedef && bare != "(break)" && bare != "(continue)" {
				// (break)/(continue) are legal inside the for wrapper; all others fail wherever they are compiled
				c.Bare = bare
			}
		}
		nrLabels := []string{"kind:" + c.Kind}
		if labelsRedef {
			nrLabels = append(nrLabels, "failing-redefinition-of-macro-or-function")
		}
		r.Count("nothingran", ev.Hash64(RenderProgram(forms), c.Failing), len(forms) >= 2, nrLabels...)
		r.Sample("nothingran-"+c.Kind, map[string]any{"failing": c.Failing})
		p.report(t, "nothingran", c, checkNothingRan(c))
	})
	p.done()
}
