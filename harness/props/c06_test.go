package props

import (
	"fmt"
	"math"
	"strconv"
	"strings"
	"testing"

	"github.com/glycerine/zygomys/v9/zygo"
	"pgregory.net/rapid"

	"verif/harness/ev"
)

// C06 — infix blocks mean what the precedence table says.
//
// A case is a flat token list (my own tokens) plus a spacing style. The oracle
// is an independent precedence-climbing parser over the token list using the
// documented table; its tree is compared (a) structurally with what
// (infixExpand {text}) returns and (b) by evaluating text and tree on twin
// interpreters (value, error-vs-value, trace of effects, final variables).

// ---------------------------------------------------------------------------
// tokens

type itok struct {
	K   string `json:"k"`             // num flt name str call block index op not post semi if else for
	S   string `json:"s,omitempty"`   // literal text / operator / name
	Sub []itok `json:"sub,omitempty"` // block / index contents / if-parts
}

func tNum(n int) itok       { return itok{K: "num", S: strconv.Itoa(n)} }
func tName(s string) itok   { return itok{K: "name", S: s} }
func tOp(s string) itok     { return itok{K: "op", S: s} }
func tCall(n int) itok      { return itok{K: "call", S: strconv.Itoa(n)} } // (tr n)
func tBlock(s ...itok) itok { return itok{K: "block", Sub: s} }
func tIndex(s ...itok) itok { return itok{K: "index", Sub: s} } // postfix [ ... ]
func tSemi() itok           { return itok{K: "semi"} }
func tWord(k string) itok   { return itok{K: k} }

var wordOps = map[string]bool{"mod": true, "and": true, "or": true, "not": true}

// documented binding powers
var bpTable = map[string]int{
	"=": 10, ":=": 10, "+=": 10, "-=": 10,
	",":   15,
	"and": 30, "or": 30,
	"==": 40, "!=": 40, "<": 40, "<=": 40, ">": 40, ">=": 40,
	"+": 50, "-": 50,
	"*": 60, "/": 60, "mod": 60,
	"**": 65,
}

func rightAssoc(op string) bool {
	switch op {
	case "=", ":=", "+=", "-=", "**", "and", "or":
		return true
	}
	return false
}

// ---------------------------------------------------------------------------
// AST produced by my parser

type inode struct {
	K    string   // leaf-num leaf-flt leaf-name leaf-str call block bin not post index cond for nilv colon
	S    string   // op / text
	Kids []*inode // operands
	Raw  []itok   // for block: raw tokens
}

type iparser struct {
	toks []itok
	pos  int
	err  string
}

func (p *iparser) peek() *itok {
	if p.pos < len(p.toks) {
		return &p.toks[p.pos]
	}
	return nil
}

func lbp(t *itok) int {
	if t == nil {
		return 0
	}
	switch t.K {
	case "op":
		return bpTable[t.S]
	case "index", "dotsel":
		return 80
	case "post":
		return 10
	}
	return 0
}

func (p *iparser) nud() *inode {
	t := p.peek()
	if t == nil {
		p.err = "unexpected end"
		return &inode{K: "nilv"}
	}
	p.pos++
	switch t.K {
	case "num":
		return &inode{K: "leaf-num", S: t.S}
	case "flt":
		return &inode{K: "leaf-flt", S: t.S}
	case "name":
		return &inode{K: "leaf-name", S: t.S}
	case "str":
		return &inode{K: "leaf-str", S: t.S}
	case "call":
		return &inode{K: "call", S: t.S}
	case "block":
		return &inode{K: "block", Raw: t.Sub}
	case "not":
		x := p.expr(70)
		return &inode{K: "not", Kids: []*inode{x}}
	case "for3":
		one := func(ts []itok) *inode {
			if len(ts) == 0 {
				return &inode{K: "nilv"}
			}
			q := &iparser{toks: ts}
			return q.expr(0)
		}
		test := one(t.Sub[1].Sub)
		if len(t.Sub[1].Sub) == 0 {
			test = &inode{K: "leaf-name", S: "true"}
		}
		return &inode{K: "for", Kids: []*inode{one(t.Sub[0].Sub), test, one(t.Sub[2].Sub), {K: "block", Raw: t.Sub[3].Sub}}}
	case "forc":
		q := &iparser{toks: t.Sub[0].Sub}
		return &inode{K: "for", Kids: []*inode{{K: "nilv"}, q.expr(0), {K: "nilv"}, {K: "block", Raw: t.Sub[1].Sub}}}
	case "if":
		c := p.expr(5)
		then := p.expr(0)
		var els *inode = &inode{K: "nilv"}
		if n := p.peek(); n != nil && n.K == "else" {
			p.pos++
			els = p.expr(0)
		}
		return &inode{K: "cond", Kids: []*inode{c, then, els}}
	}
	p.err = "unexpected token " + t.K + " " + t.S
	return &inode{K: "nilv"}
}

func (p *iparser) expr(rbp int) *inode {
	left := p.nud()
	for {
		t := p.peek()
		if t == nil || lbp(t) <= rbp {
			return left
		}
		p.pos++
		switch t.K {
		case "op":
			bp := bpTable[t.S]
			next := bp
			if rightAssoc(t.S) {
				next = bp - 1
			}
			right := p.expr(next)
			left = &inode{K: "bin", S: t.S, Kids: []*inode{left, right}}
		case "post":
			left = &inode{K: "post", S: t.S, Kids: []*inode{left}}
		case "index":
			left = &inode{K: "index", Kids: []*inode{left, parseSelector(t.Sub)}}
		case "dotsel":
			// a field selector applied to the value on its left: a[i].f
			left = &inode{K: "dotsel", S: t.S, Kids: []*inode{left}}
		}
	}
}

// parseSelector mirrors the documented forms a[i], a[i:j], a[:j], a[i:]
func parseSelector(sub []itok) *inode {
	colon := -1
	for i, t := range sub {
		if t.K == "colon" {
			colon = i
		}
	}
	one := func(ts []itok) *inode {
		if len(ts) == 0 {
			return nil
		}
		q := &iparser{toks: ts}
		return q.expr(0)
	}
	sel := &inode{K: "selector"}
	if colon < 0 {
		sel.Kids = []*inode{one(sub)}
		return sel
	}
	if a := one(sub[:colon]); a != nil {
		sel.Kids = append(sel.Kids, a)
	}
	sel.Kids = append(sel.Kids, &inode{K: "colon"})
	if b := one(sub[colon+1:]); b != nil {
		sel.Kids = append(sel.Kids, b)
	}
	return sel
}

func parseStatements(toks []itok) ([]*inode, string) {
	p := &iparser{toks: toks}
	var out []*inode
	for p.pos < len(p.toks) {
		if p.toks[p.pos].K == "semi" {
			p.pos++
			continue
		}
		out = append(out, p.expr(0))
		if p.err != "" {
			return out, p.err
		}
	}
	return out, ""
}

func opHead(op string) string {
	switch op {
	case "=", ":=":
		return "set"
	case ",":
		return "comma"
	}
	return op
}

// dumpNode renders the expected tree in the format of dump().
func (n *inode) dumpNode() string {
	switch n.K {
	case "leaf-num":
		v, _ := strconv.ParseInt(n.S, 10, 64)
		return fmt.Sprintf("i:%d", v)
	case "leaf-flt":
		f, _ := strconv.ParseFloat(n.S, 64)
		return fmt.Sprintf("f:%016x", math.Float64bits(f))
	case "leaf-name":
		return "y:" + n.S
	case "leaf-str":
		return fmt.Sprintf("s:%q", n.S)
	case "call":
		return "(y:tr i:" + n.S + ")"
	case "block":
		return "(y:infix [" + dumpRawTokens(n.Raw) + "])"
	case "bin":
		return "(y:" + opHead(n.S) + " " + n.Kids[0].dumpNode() + " " + n.Kids[1].dumpNode() + ")"
	case "not":
		return "(y:not " + n.Kids[0].dumpNode() + ")"
	case "post":
		return "(y:" + n.S + " " + n.Kids[0].dumpNode() + ")"
	case "index":
		return "(y:arrayidx " + n.Kids[0].dumpNode() + " " + n.Kids[1].dumpNode() + ")"
	case "dotsel":
		return "(y:hashidx " + n.Kids[0].dumpNode() + " y:" + n.S + ")"
	case "selector":
		var parts []string
		for _, k := range n.Kids {
			parts = append(parts, k.dumpNode())
		}
		return "[" + strings.Join(parts, " ") + "]"
	case "colon":
		return "y::"
	case "cond":
		return "(y:cond " + n.Kids[0].dumpNode() + " " + n.Kids[1].dumpNode() + " " + n.Kids[2].dumpNode() + ")"
	case "nilv":
		return "nil"
	case "for":
		test := n.Kids[1].dumpNode()
		if n.Kids[1].K == "leaf-name" && n.Kids[1].S == "true" {
			test = "b:true"
		}
		return "(y:for [" + n.Kids[0].dumpNode() + " " + test + " " + n.Kids[2].dumpNode() + "] " + n.Kids[3].dumpNode() + ")"
	}
	return "?" + n.K
}

// dumpRawTokens: how the unexpanded token array of a nested block dumps.
func dumpRawTokens(ts []itok) string {
	var parts []string
	for _, t := range ts {
		switch t.K {
		case "num":
			v, _ := strconv.ParseInt(t.S, 10, 64)
			parts = append(parts, fmt.Sprintf("i:%d", v))
		case "flt":
			f, _ := strconv.ParseFloat(t.S, 64)
			parts = append(parts, fmt.Sprintf("f:%016x", math.Float64bits(f)))
		case "name":
			parts = append(parts, "y:"+t.S)
		case "str":
			parts = append(parts, fmt.Sprintf("s:%q", t.S))
		case "call":
			parts = append(parts, "(y:tr i:"+t.S+")")
		case "op", "post":
			if t.S == "," {
				parts = append(parts, "<comma>")
			} else {
				parts = append(parts, "y:"+t.S)
			}
		case "not", "if", "else":
			parts = append(parts, "y:"+t.K)
		case "semi":
			parts = append(parts, "<semi>")
		case "block":
			parts = append(parts, "(y:infix ["+dumpRawTokens(t.Sub)+"])")
		case "index":
			parts = append(parts, "["+dumpRawTokens(t.Sub)+"]")
		case "dotsel":
			parts = append(parts, "y:"+t.S)
		case "colon":
			parts = append(parts, "y::")
		}
	}
	return strings.Join(parts, " ")
}

// sexprNode renders the expected tree as source text in prefix form.
func (n *inode) sexprNode() string {
	switch n.K {
	case "leaf-num", "leaf-flt", "leaf-name":
		return n.S
	case "leaf-str":
		return strconv.Quote(n.S)
	case "call":
		return "(tr " + n.S + ")"
	case "block":
		return "{" + renderTokens(n.Raw, 0, nil) + "}"
	case "bin":
		return "(" + opHead(n.S) + " " + n.Kids[0].sexprNode() + " " + n.Kids[1].sexprNode() + ")"
	case "not":
		return "(not " + n.Kids[0].sexprNode() + ")"
	case "post":
		return "(" + n.S + " " + n.Kids[0].sexprNode() + ")"
	case "index":
		return "(arrayidx " + n.Kids[0].sexprNode() + " " + n.Kids[1].sexprNode() + ")"
	case "dotsel":
		return "(hashidx " + n.Kids[0].sexprNode() + " " + n.S + ")"
	case "selector":
		var parts []string
		for _, k := range n.Kids {
			parts = append(parts, k.sexprNode())
		}
		return "[" + strings.Join(parts, " ") + "]"
	case "colon":
		return "(quote :)" // placeholder, replaced below
	case "cond":
		return "(cond " + n.Kids[0].sexprNode() + " " + n.Kids[1].sexprNode() + " " + n.Kids[2].sexprNode() + ")"
	case "nilv":
		return "nil"
	case "for":
		return "(for [" + n.Kids[0].sexprNode() + " " + n.Kids[1].sexprNode() + " " + n.Kids[2].sexprNode() + "] " + n.Kids[3].sexprNode() + ")"
	}
	return "?"
}

func (n *inode) hasSlice() bool {
	if n == nil {
		return false
	}
	if n.K == "colon" {
		return true
	}
	for _, k := range n.Kids {
		if k.hasSlice() {
			return true
		}
	}
	return false
}

// ---------------------------------------------------------------------------
// rendering tokens as text with a spacing style

// style: 0 = spaces everywhere, 1 = glued where legal, 2 = per-gap choices from bits
func renderTokens(ts []itok, style int, bits func() bool) string {
	var b strings.Builder
	prevSymbolic := func(t *itok) bool {
		if t == nil {
			return false
		}
		return (t.K == "op" && !wordOps[t.S]) || t.K == "post" || t.K == "semi"
	}
	startsWithDigit := func(t itok) bool {
		return (t.K == "num" || t.K == "flt") && len(t.S) > 0 && (t.S[0] >= '0' && t.S[0] <= '9' || t.S[0] == '.')
	}
	isNeg := func(t itok) bool { return (t.K == "num" || t.K == "flt") && strings.HasPrefix(t.S, "-") }
	spaceBeforeMinus := false
	for i, t := range ts {
		var prev *itok
		if i > 0 {
			prev = &ts[i-1]
		}
		// decide the gap before t
		gap := " "
		if prev == nil {
			gap = ""
		} else if t.K == "index" || t.K == "dotsel" {
			gap = "" // a[i]  a[i].f
		} else if style != 0 {
			canGlue := prevSymbolic(prev) || (t.K == "op" && !wordOps[t.S]) || t.K == "post" || t.K == "semi"
			if prev.K == "op" && wordOps[prev.S] || prev.K == "not" || prev.K == "if" || prev.K == "else" {
				canGlue = false
			}
			if t.K == "not" || t.K == "if" || t.K == "else" || t.K == "for3" || t.K == "forc" || (t.K == "op" && wordOps[t.S]) {
				canGlue = false
			}
			if t.K == "block" || prev.K == "block" || prev.K == "call" && t.K == "call" {
				canGlue = canGlue || t.K == "block" || prev.K == "block"
			}
			if isNeg(t) {
				canGlue = false // always a space before a negative literal
			}
			// the sign rule: "a -3" would be two statements; never write <space>-<digit>
			if prev.K == "op" && prev.S == "-" && spaceBeforeMinus && startsWithDigit(t) {
				canGlue = false
			}
			// "/" followed by "*" or "/" would open a comment; "<" "-"... handled by isNeg
			if prev.K == "op" && prev.S == "/" && t.K == "op" {
				canGlue = false
			}
			// two symbolic operators in a row could merge into another operator
			if prevSymbolic(prev) && prev.K != "semi" && (t.K == "op" && !wordOps[t.S] || t.K == "post") {
				canGlue = false
			}
			if canGlue {
				if style == 1 || bits() {
					gap = ""
				}
			}
		}
		if t.K == "op" && t.S == "-" {
			spaceBeforeMinus = gap != ""
		}
		b.WriteString(gap)
		switch t.K {
		case "num", "flt", "name":
			b.WriteString(t.S)
		case "str":
			b.WriteString(strconv.Quote(t.S))
		case "call":
			b.WriteString("(tr " + t.S + ")")
		case "op", "post":
			b.WriteString(t.S)
		case "not", "if", "else":
			b.WriteString(t.K)
		case "semi":
			b.WriteString(";")
		case "block":
			b.WriteString("{" + renderTokens(t.Sub, style, bits) + "}")
		case "index":
			b.WriteString("[" + renderTokens(t.Sub, style, bits) + "]")
		case "dotsel":
			b.WriteString(t.S)
		case "colon":
			b.WriteString(":")
		case "for3":
			b.WriteString("for " + renderTokens(t.Sub[0].Sub, style, bits) + "; " + renderTokens(t.Sub[1].Sub, style, bits) + "; " + renderTokens(t.Sub[2].Sub, style, bits) + " {" + renderTokens(t.Sub[3].Sub, style, bits) + "}")
		case "forc":
			b.WriteString("for " + renderTokens(t.Sub[0].Sub, style, bits) + " {" + renderTokens(t.Sub[1].Sub, style, bits) + "}")
		}
	}
	return b.String()
}

type infixCase struct {
	Toks  []itok `json:"toks"`
	Style int    `json:"style"`
	Bits  uint64 `json:"bits"`
}

func (c infixCase) text() string {
	bits := c.Bits
	return renderTokens(c.Toks, c.Style, func() bool {
		b := bits&1 == 1
		bits = bits>>1 | (bits&1)<<63
		return b
	})
}

// inDomain: token lists whose tree the statement determines.
func infixInDomain(ts []itok) bool {
	nLogic, nCmp := 0, 0
	for _, t := range ts {
		if t.K == "op" {
			switch t.S {
			case "and", "or":
				nLogic++
			case "==", "!=", "<", "<=", ">", ">=":
				nCmp++
			}
		}
		if t.K == "block" || t.K == "index" {
			if !infixInDomain(t.Sub) {
				return false
			}
		}
	}
	// associativity among and/or and among comparisons is not documented
	return nLogic <= 1 && nCmp <= 1
}

// ---------------------------------------------------------------------------
// sub-check "tree"

func checkInfixTree(c infixCase) *ev.Failure {
	text := c.text()
	stmts, perr := parseStatements(c.Toks)
	if perr != "" {
		return nil // not a well-formed token list for my grammar (should not happen)
	}
	var parts []string
	for _, s := range stmts {
		parts = append(parts, s.dumpNode())
	}
	want := "(y:quote " + strings.Join(parts, " ") + ")"
	if len(parts) == 0 {
		want = "nil"
	}
	env := sharedInfixEnv()
	r := evalString(env, "(infixExpand {"+text+"})\n", 20000)
	sig := "tree:" + infixSig(c.Toks)
	if r.Panic != "" {
		dropInfixEnv()
		return &ev.Failure{Sig: "expand-panic", Msg: fmt.Sprintf("(infixExpand {%s}) panics", text), Expected: want, Observed: r.Panic}
	}
	if r.Err != nil {
		dropInfixEnv()
		return &ev.Failure{Sig: sig, Msg: fmt.Sprintf("(infixExpand {%s}) fails", text), Expected: want, Observed: r.Err.Error()}
	}
	got := dump(r.Val)
	if got != want {
		return &ev.Failure{Sig: sig, Msg: fmt.Sprintf("{%s} expands to a tree that disagrees with the precedence table", text), Expected: want, Observed: got}
	}
	return nil
}

// infixSig names the operator sequence (the "call site" of a precedence defect).
func infixSig(ts []itok) string {
	var ops []string
	for _, t := range ts {
		switch t.K {
		case "op", "post":
			ops = append(ops, t.S)
		case "not", "if", "index", "block":
			ops = append(ops, t.K)
		}
	}
	if len(ops) > 4 {
		ops = ops[:4]
	}
	return strings.Join(ops, "_")
}

var checkInfixTreeR = reg("C06", "tree", checkInfixTree)

var infixEnv *zygo.Zlisp
var infixEnvUses int

func sharedInfixEnv() *zygo.Zlisp {
	if infixEnv == nil || infixEnvUses > 300 {
		dropInfixEnv()
		infixEnv = newEnv(envFull)
	}
	infixEnvUses++
	return infixEnv
}
func dropInfixEnv() {
	if infixEnv != nil {
		infixEnv.Close()
	}
	infixEnv = nil
	infixEnvUses = 0
}

// ---------------------------------------------------------------------------
// sub-check "value": text vs expected prefix form on twin interpreters

type twin struct {
	env   *zygo.Zlisp
	trace []string
}

func newTwin() *twin {
	tw := &twin{env: newEnv(envFull)}
	tw.env.AddFunction("tr", func(env *zygo.Zlisp, name string, a []zygo.Sexp) (zygo.Sexp, error) {
		for _, x := range a {
			tw.trace = append(tw.trace, dump(x))
		}
		if len(a) == 0 {
			return zygo.SexpNull, nil
		}
		return a[len(a)-1], nil
	})
	return tw
}

const infixPrelude = `(def a 2) (def b 3) (def c 5) (def d 7) (def x 0) (def y 0) (def arr [10 20 30 40 50]) (def h (hash k: 7 m: 9)) (def s "str") (def recs [(hash e: 11 ok: true) (hash e: 13 ok: false)])` + "\n"

func checkInfixValue(c infixCase) *ev.Failure {
	text := c.text()
	stmts, perr := parseStatements(c.Toks)
	if perr != "" {
		return nil
	}
	var parts []string
	for _, s := range stmts {
		parts = append(parts, s.sexprNode())
	}
	prefix := "(begin " + strings.Join(parts, " ") + ")"
	if len(parts) == 0 {
		prefix = "nil"
	}
	// slices: the prefix form needs the ':' symbol inside the selector; write it through infixExpand-free syntax
	prefix = strings.ReplaceAll(prefix, "(quote :)", ":")
	ta, tb := newTwin(), newTwin()
	defer ta.env.Close()
	defer tb.env.Close()
	for _, tw := range []*twin{ta, tb} {
		if r := evalString(tw.env, infixPrelude, 20000); r.Err != nil || r.Panic != "" {
			return &ev.Failure{Sig: "prelude", Msg: "prelude fails", Observed: fmt.Sprint(r.Err, r.Panic)}
		}
	}
	ra := evalString(ta.env, "{"+text+"}\n", 20000)
	rb := evalString(tb.env, prefix+"\n", 20000)
	sig := "value:" + infixSig(c.Toks)
	mk := func(msg string, exp, obs any) *ev.Failure {
		return &ev.Failure{Sig: sig, Msg: fmt.Sprintf("{%s} vs %s: %s", text, prefix, msg), Expected: exp, Observed: obs}
	}
	if ra.Panic != "" {
		return &ev.Failure{Sig: "eval-panic", Msg: fmt.Sprintf("{%s} panics", text), Observed: ra.Panic}
	}
	if rb.Panic != "" {
		return nil // the prefix form's own problem (C01), not a precedence matter
	}
	if ra.Budget || rb.Budget {
		return nil
	}
	if (ra.Err == nil) != (rb.Err == nil) {
		return mk("one errors, the other does not", errString(rb.Err), errString(ra.Err))
	}
	if strings.Join(ta.trace, "|") != strings.Join(tb.trace, "|") {
		return mk("different order/number of effects", tb.trace, ta.trace)
	}
	if ra.Err == nil {
		va, vb := dumpResolved(ta.env, ra.Val), dumpResolved(tb.env, rb.Val)
		if va != vb {
			return mk("different value", vb, va)
		}
	}
	// final variables
	for _, v := range []string{"a", "b", "c", "d", "x", "y", "arr", "h", "recs"} {
		qa := evalString(ta.env, v+"\n", 2000)
		qb := evalString(tb.env, v+"\n", 2000)
		if qa.Err == nil && qb.Err == nil && dump(qa.Val) != dump(qb.Val) {
			return mk("variable "+v+" differs afterwards", dump(qb.Val), dump(qa.Val))
		}
	}
	return nil
}

// dumpResolved resolves selector results (a[i] yields a selector object) to their value.
func dumpResolved(env *zygo.Zlisp, v zygo.Sexp) string {
	if sel, ok := v.(zygo.Selector); ok {
		var out zygo.Sexp
		var err error
		if p := safeCall(func() { out, err = sel.RHS(env) }); p == "" && err == nil {
			return dump(out)
		}
	}
	return dump(v)
}

var checkInfixValueR = reg("C06", "value", checkInfixValue)

// ---------------------------------------------------------------------------
// generators

var binOpsAll = []string{"=", ":=", "+=", "-=", "and", "or", "==", "!=", "<", "<=", ">", ">=", "+", "-", "*", "/", "mod", "**"}

func infixNonTrivial(ts []itok) (bool, []string) {
	var bps []int
	var labels []string
	seen := map[string]bool{}
	add := func(l string) {
		if !seen[l] {
			seen[l] = true
			labels = append(labels, l)
		}
	}
	var walk func(ts []itok)
	walk = func(ts []itok) {
		for _, t := range ts {
			switch t.K {
			case "op":
				bps = append(bps, bpTable[t.S]*2+map[bool]int{true: 1, false: 0}[rightAssoc(t.S)])
				add("op:" + t.S)
			case "not":
				bps = append(bps, 140)
				add("not")
			case "index":
				bps = append(bps, 160)
				add("index")
				walk(t.Sub)
			case "block":
				add("nested-block")
				walk(t.Sub)
			case "post":
				add("postfix")
			case "if":
				add("if")
			case "for3", "forc":
				add("go-for")
			case "semi":
				add("semicolon")
			case "call":
				add("call")
			}
		}
	}
	walk(ts)
	nt := false
	for i := 1; i < len(bps); i++ {
		if bps[i] != bps[i-1] || bps[i]%2 == 1 {
			nt = true
		}
	}
	return nt, labels
}

func genInfixOperand(t *rapid.T, depth int) []itok {
	switch rapid.IntRange(0, 13).Draw(t, "operand") {
	case 0, 1, 2:
		return []itok{tName(rapid.SampledFrom([]string{"a", "b", "c", "d"}).Draw(t, "name"))}
	case 3, 4:
		return []itok{tNum(rapid.IntRange(0, 9).Draw(t, "num"))}
	case 5:
		return []itok{tNum(-rapid.IntRange(1, 9).Draw(t, "neg"))}
	case 6:
		return []itok{{K: "flt", S: rapid.SampledFrom([]string{"1.5", "0.25", "2.5e-3", "-1.5", "1e3"}).Draw(t, "flt")}}
	case 7, 8:
		return []itok{tCall(rapid.IntRange(1, 9).Draw(t, "call"))}
	case 9:
		// indexing
		var sub []itok
		switch rapid.IntRange(0, 9).Draw(t, "sel") {
		case 5:
			sub = []itok{tWord("colon"), tName("a"), tOp("+"), tNum(1)}
		case 6:
			sub = []itok{tName("a"), tOp("-"), tNum(1), tWord("colon")}
		case 7:
			sub = []itok{tName("a"), tOp("-"), tNum(2), tWord("colon"), tName("a"), tOp("*"), tNum(2)}
		case 8:
			sub = []itok{tWord("colon"), tCall(2)}
		case 9:
			sub = []itok{tNum(0), tWord("colon"), tName("arr"), tIndex(tNum(0)), tOp("-"), tNum(8)}
		case 0:
			sub = []itok{tNum(rapid.IntRange(0, 4).Draw(t, "i"))}
		case 1:
			sub = []itok{tName("a"), tOp("+"), tNum(1)}
		case 2:
			sub = []itok{tNum(1), tWord("colon"), tNum(3)}
		case 3:
			sub = []itok{tWord("colon"), tNum(2)}
		case 4:
			sub = []itok{tNum(1), tWord("colon")}
		}
		if rapid.IntRange(0, 2).Draw(t, "fieldOfElement") == 0 {
			// the field of an element: recs[i].f (recs is an array of hashes in the evaluation twin)
			f := rapid.SampledFrom([]string{".e", ".ok", ".e"}).Draw(t, "fld")
			return []itok{tName("recs"), tIndex(tNum(rapid.IntRange(0, 1).Draw(t, "ri"))), {K: "dotsel", S: f}}
		}
		return []itok{tName("arr"), tIndex(sub...)}
	case 10:
		return []itok{tName(rapid.SampledFrom([]string{"h.k", "h.m"}).Draw(t, "dot"))}
	case 11:
		if depth < 2 {
			return []itok{tBlock(genExprToks(t, depth+1, rapid.IntRange(1, 3).Draw(t, "bn"))...)}
		}
		return []itok{tNum(4)}
	case 12:
		return []itok{tWord("not"), tName(rapid.SampledFrom([]string{"a", "b", "x"}).Draw(t, "nn"))}
	default:
		return []itok{{K: "str", S: rapid.SampledFrom([]string{"s", "t u"}).Draw(t, "str")}}
	}
}

// genExprToks: operand (op operand)^n
func genExprToks(t *rapid.T, depth, nops int) []itok {
	var ts []itok
	// optionally an assignment head
	if rapid.IntRange(0, 3).Draw(t, "assign") == 0 {
		ts = append(ts, tName(rapid.SampledFrom([]string{"x", "y", "a"}).Draw(t, "lhs")), tOp(rapid.SampledFrom([]string{"=", ":=", "+=", "-="}).Draw(t, "aop")))
	}
	ts = append(ts, genInfixOperand(t, depth)...)
	for i := 0; i < nops; i++ {
		op := rapid.SampledFrom([]string{"and", "or", "==", "!=", "<", "<=", ">", ">=", "+", "+", "-", "-", "*", "*", "/", "mod", "**"}).Draw(t, "op")
		ts = append(ts, tOp(op))
		ts = append(ts, genInfixOperand(t, depth)...)
	}
	return ts
}

func genStatements(t *rapid.T) []itok {
	n := rapid.IntRange(1, 4).Draw(t, "nstmt")
	var ts []itok
	for i := 0; i < n; i++ {
		if i > 0 {
			if rapid.Bool().Draw(t, "semi") {
				ts = append(ts, tSemi())
			}
		}
		switch rapid.IntRange(0, 9).Draw(t, "stmt") {
		case 0:
			ts = append(ts, tName(rapid.SampledFrom([]string{"x", "y"}).Draw(t, "pp")), itok{K: "post", S: rapid.SampledFrom([]string{"++", "--"}).Draw(t, "post")})
			ts = append(ts, tSemi())
		case 1:
			// if/else
			ts = append(ts, tWord("if"))
			ts = append(ts, genExprToks(t, 1, rapid.IntRange(0, 2).Draw(t, "cn"))...)
			ts = append(ts, tBlock(genExprToks(t, 1, 1)...))
			if rapid.Bool().Draw(t, "else") {
				ts = append(ts, tWord("else"), tBlock(genExprToks(t, 1, 1)...))
			}
			ts = append(ts, tSemi())
		case 3:
			// go-style three-clause for, loop variable i counts to a small bound
			lim := rapid.IntRange(0, 4).Draw(t, "lim")
			body := genExprToks(t, 1, rapid.IntRange(0, 2).Draw(t, "fb"))
			body = append([]itok{tName("x"), tOp("+="), tName("i"), tSemi()}, body...)
			ts = append(ts, itok{K: "for3", Sub: []itok{
				tBlock(tName("i"), tOp(":="), tNum(0)),
				tBlock(tName("i"), tOp("<"), tNum(lim)),
				tBlock(tName("i"), itok{K: "post", S: "++"}),
				tBlock(body...)}}, tSemi())
		case 4:
			// condition-only for
			ts = append(ts, itok{K: "forc", Sub: []itok{
				tBlock(tName("y"), tOp("<"), tNum(rapid.IntRange(0, 3).Draw(t, "wl"))),
				tBlock(tName("y"), itok{K: "post", S: "++"}, tSemi(), tCall(rapid.IntRange(1, 9).Draw(t, "wc")))}}, tSemi())
		case 2:
			// multiple assignment
			ts = append(ts, tName("x"), tOp(","), tName("y"), tOp("="), tNum(rapid.IntRange(0, 9).Draw(t, "m1")), tOp(","), tNum(rapid.IntRange(0, 9).Draw(t, "m2")), tSemi())
		default:
			ts = append(ts, genExprToks(t, 0, rapid.IntRange(0, 4).Draw(t, "nops"))...)
		}
	}
	return ts
}

func tokKey(c infixCase) uint64 { return ev.Hash64(c.text()) }

func TestC06(t *testing.T) {
	p := begin(t, "C06")
	r := p.r
	r.SetRule("case = flat token list (operands: field selectors applied to an indexed element recs[i].f, ints, negative ints, floats, names, strings, (tr n) calls, nested {blocks}, arr[i] / arr[i:j] / arr[:j] / arr[i:] indexing, dotted names; operators = := += -= , and or == != < <= > >= + - * / mod **, prefix not, postfix ++ --, ; , if/else) rendered with a spacing style (all spaces / glued / random per gap). tree: dump of (infixExpand {text}) must equal the tree my independent precedence-climbing parser builds from the documented table. value: {text} and the expected prefix form evaluated on twin interpreters must agree in value, error-vs-value, trace of (tr n) effects and final variables. Generated (1) exhaustively: every chain of 2 and 3 binary operators (18 operators) over distinct operands x 3 spacings [4-operator chains: thorough], (2) rapid statement lists. Non-trivial: two adjacent operators of different binding power or a right-associative one. Distinct by rendered text.")
	r.Assume("associativity among and/or and among comparison operators is not documented: token lists with two of either are not generated for the tree check", "unary minus on names, a binary minus written as '<space>-<digit>' (two statements by the sign rule) and postfix ++/-- inside expressions are not generated")

	// (1) exhaustive chains
	operands := []itok{tName("p"), tName("q"), tName("r"), tName("s"), tName("t")}
	maxN := 3
	if ev.Thorough() {
		maxN = 4
	}
	idx := 0
	var count int64
	for n := 2; n <= maxN; n++ {
		idxs := make([]int, n)
		for {
			var toks []itok
			toks = append(toks, operands[0])
			for i, oi := range idxs {
				toks = append(toks, tOp(binOpsAll[oi]), operands[i+1])
			}
			if infixInDomain(toks) {
				for style := 0; style < 3; style++ {
					idx++
					if idx%ev.NShards() != ev.Shard() {
						continue
					}
					c := infixCase{Toks: toks, Style: style, Bits: 0xA5A5A5A5A5A5A5A5 ^ uint64(idx)*0x9E3779B97F4A7C15}
					nt, labels := infixNonTrivial(toks)
					r.Count("exhaustive-chains", tokKey(c), nt, append(labels, fmt.Sprintf("style:%d", style), "exhaustive")...)
					count++
					if count%2500 == 1 {
						r.Sample("exhaustive-chain", c.text())
					}
					p.reportEnum("tree", c, checkInfixTree(c))
				}
			} else {
				r.Exclude("associativity-not-documented")
			}
			j := n - 1
			for j >= 0 {
				idxs[j]++
				if idxs[j] < len(binOpsAll) {
					break
				}
				idxs[j] = 0
				j--
			}
			if j < 0 {
				break
			}
		}
	}
	r.ExhaustiveSpace(fmt.Sprintf("operator chains of length 2..%d over 18 binary operators x 3 spacing styles (in-domain)", maxN), count)

	// (1b) exhaustive: not / index / call / block against every binary operator on either side
	var count2 int64
	for _, op := range binOpsAll {
		specials := [][]itok{
			{tWord("not"), tName("p"), tOp(op), tName("q")},
			{tName("p"), tOp(op), tWord("not"), tName("q")},
			{tName("p"), tOp(op), tName("recs"), tIndex(tNum(1)), {K: "dotsel", S: ".e"}},
			{tName("recs"), tIndex(tNum(0)), {K: "dotsel", S: ".e"}, tOp(op), tName("q")},
			{tWord("not"), tName("recs"), tIndex(tNum(1)), {K: "dotsel", S: ".ok"}, tOp(op), tName("q")},
			{tName("p"), tOp(op), tName("arr"), tIndex(tNum(1))},
			{tName("arr"), tIndex(tName("p"), tOp("+"), tNum(1)), tOp(op), tName("q")},
			{tName("p"), tOp(op), tName("arr"), tIndex(tNum(1), tWord("colon"), tNum(3))},
			{tName("p"), tOp(op), tName("arr"), tIndex(tWord("colon"), tName("q"), tOp("+"), tNum(1))},
			{tName("p"), tOp(op), tName("arr"), tIndex(tName("q"), tOp("-"), tNum(1), tWord("colon"))},
			{tName("arr"), tIndex(tName("p"), tOp("*"), tNum(2), tWord("colon"), tName("q"), tOp("+"), tNum(1)), tOp(op), tName("r")},
			{tName("p"), tOp(op), tCall(1), tOp(op), tName("q")},
			{tName("p"), tOp(op), tBlock(tName("q"), tOp("+"), tName("r")), tOp("*"), tName("s")},
			{tName("p"), tOp(op), tName("h.k"), tOp("*"), tName("s")},
			{tName("p"), tOp(op), tNum(-3), tOp("*"), tNum(2)},
			{tName("p"), tOp(op), tName("q"), tSemi(), tName("r"), tOp(op), tName("s")},
		}
		for _, toks := range specials {
			if !infixInDomain(toks) {
				continue
			}
			for style := 0; style < 3; style++ {
				c := infixCase{Toks: toks, Style: style, Bits: 0x5555AAAA5555AAAA}
				nt, labels := infixNonTrivial(toks)
				r.Count("exhaustive-tightest", tokKey(c), nt, append(labels, "exhaustive")...)
				count2++
				if ev.Shard() == 0 {
					p.reportEnum("tree", c, checkInfixTree(c))
				}
			}
		}
	}
	r.ExhaustiveSpace("not/index/slice/call/block/dotted/negative-literal/semicolon against each binary operator x 3 spacings", count2)

	// (2) random statement lists: tree
	p.rapidSub("tree", ev.Scale(6000, 600000), func(t *rapid.T) {
		toks := genStatements(t)
		if !infixInDomain(toks) {
			r.Exclude("associativity-not-documented")
			return
		}
		c := infixCase{Toks: toks, Style: rapid.IntRange(0, 2).Draw(t, "style"), Bits: rapid.Uint64().Draw(t, "bits")}
		nt, labels := infixNonTrivial(toks)
		r.Count("random-tree", tokKey(c), nt, append(labels, fmt.Sprintf("style:%d", c.Style))...)
		if nt {
			r.Sample("random-tree", c.text())
		}
		p.report(t, "tree", c, checkInfixTree(c))
	})

	// (3) random statement lists: value
	p.rapidSub("value", ev.Scale(2500, 300000), func(t *rapid.T) {
		toks := genStatements(t)
		// mixing and with or at one level is associativity-dependent
		hasAnd, hasOr := false, false
		var walk func(ts []itok)
		walk = func(ts []itok) {
			for _, tk := range ts {
				if tk.K == "op" && tk.S == "and" {
					hasAnd = true
				}
				if tk.K == "op" && tk.S == "or" {
					hasOr = true
				}
				walk(tk.Sub)
			}
		}
		walk(toks)
		nCmp := 0
		for _, tk := range toks {
			if tk.K == "op" && bpTable[tk.S] == 40 {
				nCmp++
			}
		}
		if (hasAnd && hasOr) || nCmp > 1 {
			r.Exclude("associativity-not-documented")
			return
		}
		c := infixCase{Toks: toks, Style: rapid.IntRange(0, 2).Draw(t, "style"), Bits: rapid.Uint64().Draw(t, "bits")}
		nt, labels := infixNonTrivial(toks)
		r.Count("random-value", tokKey(c), nt, append(labels, fmt.Sprintf("style:%d", c.Style))...)
		if nt {
			r.Sample("random-value", c.text())
		}
		p.report(t, "value", c, checkInfixValue(c))
	})
	dropInfixEnv()
	p.done()
}
