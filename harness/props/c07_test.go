package props

import (
	"fmt"
	"math"
	"math/big"
	"testing"

	"github.com/glycerine/zygomys/v9/zygo"
	"pgregory.net/rapid"

	"verif/harness/ev"
)

// C07 — numbers compare and compute exactly as specified.
//
// Operands are injected as Go values (AddGlobal), so literal parsing cannot
// mask or cause a failure. Oracle: math/big for the exact order and for
// wrap-around arithmetic; IEEE float64 operations of Go for float results.

type numOperand struct {
	Kind string `json:"kind"` // int | uint | char | float
	Bits uint64 `json:"bits"` // two's complement / IEEE bits / rune value
}

func (o numOperand) String() string {
	switch o.Kind {
	case "int":
		return fmt.Sprintf("int:%d", int64(o.Bits))
	case "uint":
		return fmt.Sprintf("uint:%d", o.Bits)
	case "char":
		return fmt.Sprintf("char:%d", int32(o.Bits))
	default:
		return fmt.Sprintf("float:%v(0x%016x)", math.Float64frombits(o.Bits), o.Bits)
	}
}

func (o numOperand) sexp() zygo.Sexp {
	switch o.Kind {
	case "int":
		return &zygo.SexpInt{Val: int64(o.Bits)}
	case "uint":
		return &zygo.SexpUint64{Val: o.Bits}
	case "char":
		return &zygo.SexpChar{Val: rune(int32(o.Bits))}
	default:
		return &zygo.SexpFloat{Val: math.Float64frombits(o.Bits)}
	}
}

// exact mathematical value (not for NaN/Inf)
func (o numOperand) big() *big.Float {
	f := new(big.Float).SetPrec(2000)
	switch o.Kind {
	case "int":
		f.SetInt64(int64(o.Bits))
	case "uint":
		f.SetUint64(o.Bits)
	case "char":
		f.SetInt64(int64(int32(o.Bits)))
	default:
		f.SetFloat64(math.Float64frombits(o.Bits))
	}
	return f
}

func (o numOperand) asFloat() float64 {
	switch o.Kind {
	case "int":
		return float64(int64(o.Bits))
	case "uint":
		return float64(o.Bits)
	case "char":
		return float64(int32(o.Bits))
	default:
		return math.Float64frombits(o.Bits)
	}
}

type numCase struct {
	Op string     `json:"op"`
	A  numOperand `json:"a"`
	B  numOperand `json:"b"`
}

var cmpOps = []string{"<", "<=", ">", ">=", "==", "!="}
var arithOps = []string{"+", "-", "*", "/", "mod"}

// inDomain says whether the property statement fixes the meaning of the case.
func (c numCase) inDomain() bool {
	ka, kb := c.A.Kind, c.B.Kind
	isCmp := false
	for _, o := range cmpOps {
		if o == c.Op {
			isCmp = true
		}
	}
	if isCmp {
		if ka == kb {
			return true
		}
		// integer or char with float, either side
		if (ka == "float" && (kb == "int" || kb == "char")) || (kb == "float" && (ka == "int" || ka == "char")) {
			return true
		}
		return false
	}
	// arithmetic: chars are not covered by the statement
	if ka == "char" || kb == "char" {
		return false
	}
	if c.Op == "mod" {
		return ka == kb && ka != "float"
	}
	if ka == kb {
		if ka == "int" && c.Op == "/" && int64(c.A.Bits) == math.MinInt64 && int64(c.B.Bits) == -1 {
			return false // 2^63 is not representable; statement silent
		}
		return true
	}
	// mixed integer/float
	return ka == "float" || kb == "float"
}

type numExpect struct {
	Err   bool   // an error is required
	Kind  string // bool | int | uint | float
	Bool  bool
	Bits  uint64
	Any   bool // result kind/value not checked beyond "no crash" (unused)
	Descr string
}

func expectNum(c numCase) numExpect {
	a, b := c.A, c.B
	switch c.Op {
	case "<", "<=", ">", ">=", "==", "!=":
		var sign int
		nan := false
		if a.Kind == b.Kind && a.Kind != "float" {
			sign = a.big().Cmp(b.big())
		} else {
			fa, fb := a.asFloat(), b.asFloat()
			if math.IsNaN(fa) || math.IsNaN(fb) {
				nan = true
			} else if fa < fb {
				sign = -1
			} else if fa > fb {
				sign = 1
			}
		}
		var r bool
		if nan {
			r = c.Op == "!="
		} else {
			switch c.Op {
			case "<":
				r = sign < 0
			case "<=":
				r = sign <= 0
			case ">":
				r = sign > 0
			case ">=":
				r = sign >= 0
			case "==":
				r = sign == 0
			case "!=":
				r = sign != 0
			}
		}
		return numExpect{Kind: "bool", Bool: r}
	}
	// arithmetic
	if a.Kind == "float" || b.Kind == "float" {
		fa, fb := a.asFloat(), b.asFloat()
		var r float64
		switch c.Op {
		case "+":
			r = fa + fb
		case "-":
			r = fa - fb
		case "*":
			r = fa * fb
		case "/":
			r = fa / fb
		}
		return numExpect{Kind: "float", Bits: math.Float64bits(r)}
	}
	// same integer kind
	ia, ib := new(big.Int), new(big.Int)
	if a.Kind == "int" {
		ia.SetInt64(int64(a.Bits))
		ib.SetInt64(int64(b.Bits))
	} else {
		ia.SetUint64(a.Bits)
		ib.SetUint64(b.Bits)
	}
	wrap := func(x *big.Int) uint64 {
		m := new(big.Int).Lsh(big.NewInt(1), 64)
		y := new(big.Int).Mod(x, m) // non-negative
		return y.Uint64()
	}
	switch c.Op {
	case "+":
		return numExpect{Kind: a.Kind, Bits: wrap(new(big.Int).Add(ia, ib))}
	case "-":
		return numExpect{Kind: a.Kind, Bits: wrap(new(big.Int).Sub(ia, ib))}
	case "*":
		return numExpect{Kind: a.Kind, Bits: wrap(new(big.Int).Mul(ia, ib))}
	case "/":
		if ib.Sign() == 0 {
			return numExpect{Err: true}
		}
		q, m := new(big.Int).QuoRem(ia, ib, new(big.Int))
		if m.Sign() == 0 {
			return numExpect{Kind: a.Kind, Bits: wrap(q)}
		}
		return numExpect{Kind: "float", Bits: math.Float64bits(a.asFloat() / b.asFloat())}
	case "mod":
		if ib.Sign() == 0 {
			return numExpect{Err: true}
		}
		_, m := new(big.Int).QuoRem(ia, ib, new(big.Int)) // truncated, as Go's %
		return numExpect{Kind: a.Kind, Bits: wrap(m), Descr: "congruence"}
	}
	panic("unreachable")
}

func observedNum(v zygo.Sexp) (kind string, bits uint64, bl bool) {
	switch x := v.(type) {
	case *zygo.SexpBool:
		return "bool", 0, x.Val
	case *zygo.SexpInt:
		return "int", uint64(x.Val), false
	case *zygo.SexpUint64:
		return "uint", x.Val, false
	case *zygo.SexpFloat:
		return "float", math.Float64bits(x.Val), false
	case *zygo.SexpChar:
		return "char", uint64(uint32(x.Val)), false
	}
	return fmt.Sprintf("%T", v), 0, false
}

func opndClass(o numOperand) string {
	switch o.Kind {
	case "float":
		f := math.Float64frombits(o.Bits)
		switch {
		case math.IsNaN(f):
			return "NaN"
		case math.IsInf(f, 0):
			return "Inf"
		case f == 0 && math.Signbit(f):
			return "-0"
		case f == 0:
			return "0"
		default:
			return "float"
		}
	default:
		return o.Kind
	}
}

func numNonTrivial(c numCase) bool {
	edge := func(o numOperand) bool {
		switch o.Kind {
		case "int":
			v := int64(o.Bits)
			return v >= math.MaxInt64-2 || v <= math.MinInt64+2
		case "uint":
			return o.Bits >= math.MaxUint64-2 || (o.Bits >= 1<<63-2 && o.Bits <= 1<<63+2)
		case "char":
			return false
		default:
			f := math.Float64frombits(o.Bits)
			return math.IsNaN(f) || math.IsInf(f, 0) || (f == 0 && math.Signbit(f)) || (f != 0 && math.Abs(f) < 2.3e-308) || math.Abs(f) >= 9.2e18
		}
	}
	if edge(c.A) || edge(c.B) {
		return true
	}
	if c.A.Kind == c.B.Kind && c.A.Kind == "int" {
		d := new(big.Int).Sub(big.NewInt(int64(c.A.Bits)), big.NewInt(int64(c.B.Bits)))
		return !d.IsInt64()
	}
	if c.A.Kind == c.B.Kind && c.A.Kind == "uint" {
		return c.A.Bits < c.B.Bits // the unsigned difference wraps
	}
	// 2^53 neighbourhood for int/float
	for _, o := range []numOperand{c.A, c.B} {
		if o.Kind == "int" {
			v := int64(o.Bits)
			if v < 0 {
				v = -v
			}
			if v >= 1<<53-2 && v <= 1<<53+2 {
				return true
			}
		}
	}
	return false
}

// numEnv is reused for a batch of evaluations.
type numEnv struct {
	env *zygo.Zlisp
	n   int
}

func (ne *numEnv) get() *zygo.Zlisp {
	if ne.env == nil || ne.n > 150 {
		if ne.env != nil {
			ne.env.Close()
		}
		ne.env = newEnv(envSandbox)
		ne.n = 0
	}
	ne.n++
	return ne.env
}
func (ne *numEnv) drop() {
	if ne.env != nil {
		ne.env.Close()
	}
	ne.env = nil
}

var sharedNumEnv numEnv

func checkNum(c numCase) *ev.Failure {
	if !c.inDomain() {
		return nil
	}
	exp := expectNum(c)
	env := sharedNumEnv.get()
	env.AddGlobal("va", c.A.sexp())
	env.AddGlobal("vb", c.B.sexp())
	text := fmt.Sprintf("(%s va vb)\n", c.Op)
	res := evalString(env, text, 1000)
	sig := fmt.Sprintf("%s:%s:%s", c.Op, opndClass(c.A), opndClass(c.B))
	mk := func(msg string, obs any) *ev.Failure {
		sharedNumEnv.drop()
		return &ev.Failure{Sig: sig, Msg: fmt.Sprintf("(%s %s %s): %s", c.Op, c.A, c.B, msg), Expected: fmt.Sprintf("%+v", exp), Observed: obs}
	}
	if res.Panic != "" {
		return mk("Go panic escaped EvalString", res.Panic)
	}
	if exp.Err {
		if res.Err == nil {
			s, _ := printSexp(res.Val)
			return mk("expected an error, got a value", s)
		}
		// the interpreter must still work afterwards
		r2 := evalString(env, "(+ 1 2)\n", 1000)
		if r2.Panic != "" || r2.Err != nil {
			return mk("interpreter unusable after division by zero", fmt.Sprintf("panic=%q err=%v", r2.Panic, r2.Err))
		}
		if k, b, _ := observedNum(r2.Val); k != "int" || b != 3 {
			return mk("interpreter wrong after division by zero: (+ 1 2)", fmt.Sprintf("%s:%d", k, b))
		}
		return nil
	}
	if res.Err != nil {
		return mk("unexpected error", res.Err.Error())
	}
	k, bits, bl := observedNum(res.Val)
	if k != exp.Kind {
		s, _ := printSexp(res.Val)
		return mk("result has wrong type "+k, s)
	}
	switch exp.Kind {
	case "bool":
		if bl != exp.Bool {
			return mk("wrong truth value", bl)
		}
	case "float":
		ef, of := math.Float64frombits(exp.Bits), math.Float64frombits(bits)
		if math.IsNaN(ef) && math.IsNaN(of) {
			return nil
		}
		if bits != exp.Bits {
			return mk("wrong float result", fmt.Sprintf("%v(0x%016x) want %v(0x%016x)", of, bits, ef, exp.Bits))
		}
	default:
		if exp.Descr == "congruence" {
			// mod: |r| < |b| and a - r divisible by b
			var a, b, r *big.Int
			if c.A.Kind == "int" {
				a, b, r = big.NewInt(int64(c.A.Bits)), big.NewInt(int64(c.B.Bits)), big.NewInt(int64(bits))
			} else {
				a, b, r = new(big.Int).SetUint64(c.A.Bits), new(big.Int).SetUint64(c.B.Bits), new(big.Int).SetUint64(bits)
			}
			d := new(big.Int).Sub(a, r)
			if new(big.Int).Abs(r).Cmp(new(big.Int).Abs(b)) >= 0 || new(big.Int).Rem(d, b).Sign() != 0 {
				return mk("wrong modulo result", r.String())
			}
			// non-negative operands: exact
			if a.Sign() >= 0 && b.Sign() > 0 && bits != exp.Bits {
				return mk("wrong modulo result", r.String())
			}
			return nil
		}
		if bits != exp.Bits {
			return mk("wrong integer result", fmt.Sprintf("%d (0x%016x) want 0x%016x", int64(bits), bits, exp.Bits))
		}
	}
	return nil
}

var checkNumR = reg("C07", "num", checkNum)

func numGrid() []numOperand {
	var g []numOperand
	for _, v := range []int64{math.MinInt64, math.MinInt64 + 1, -(1 << 53) - 1, -(1 << 53), -(1 << 31), -2, -1, 0, 1, 2, 3, 97, 1 << 31, 1 << 53, 1<<53 + 1, math.MaxInt64 - 1, math.MaxInt64} {
		g = append(g, numOperand{"int", uint64(v)})
	}
	for _, v := range []uint64{0, 1, 2, 3, 5, 1<<53 + 1, 1<<63 - 1, 1 << 63, 1<<63 + 1, math.MaxUint64 - 1, math.MaxUint64} {
		g = append(g, numOperand{"uint", v})
	}
	for _, v := range []int32{0, 1, 'a', 'b', 0x10FFFF} {
		g = append(g, numOperand{"char", uint64(uint32(v))})
	}
	for _, f := range []float64{0, math.Copysign(0, -1), 1, -1, 0.5, 1.5, 97, 1 << 53, -(1 << 53), 1<<53 + 2, 9223372036854775808.0, -9223372036854775808.0, 18446744073709551616.0,
		math.Inf(1), math.Inf(-1), math.NaN(), 5e-324, -5e-324, 2.2250738585072014e-308, math.MaxFloat64, -math.MaxFloat64, 1e21, 0.1} {
		g = append(g, numOperand{"float", math.Float64bits(f)})
	}
	return g
}

func numKey(c numCase) uint64 {
	return ev.Hash64(c.Op, c.A.Kind, fmt.Sprint(c.A.Bits), c.B.Kind, fmt.Sprint(c.B.Bits))
}

func genOperand(kinds []string) *rapid.Generator[numOperand] {
	return rapid.Custom(func(t *rapid.T) numOperand {
		k := rapid.SampledFrom(kinds).Draw(t, "kind")
		var bits uint64
		switch rapid.IntRange(0, 4).Draw(t, "shape") {
		case 0: // any 64-bit pattern
			bits = rapid.Uint64().Draw(t, "bits")
		case 1: // near a power of two
			sh := rapid.IntRange(0, 63).Draw(t, "sh")
			d := rapid.Int64Range(-3, 3).Draw(t, "d")
			bits = uint64(int64(uint64(1)<<uint(sh)) + d)
		case 2: // near the top
			bits = math.MaxUint64 - rapid.Uint64Range(0, 4).Draw(t, "d")
		case 3: // small
			bits = uint64(rapid.Int64Range(-20, 20).Draw(t, "small"))
		case 4: // from grid
			g := numGrid()
			o := g[rapid.IntRange(0, len(g)-1).Draw(t, "gi")]
			if o.Kind == k {
				return o
			}
			bits = o.Bits
		}
		switch k {
		case "char":
			bits = uint64(uint32(int32(bits % 0x110000)))
		case "float":
			if rapid.Bool().Draw(t, "fromInt") {
				bits = math.Float64bits(float64(int64(bits)))
			}
		}
		return numOperand{k, bits}
	})
}

func TestC07(t *testing.T) {
	p := begin(t, "C07")
	r := p.r
	r.SetRule("case = (operator, kindA, bitsA, kindB, bitsB) with operands injected as Go values; generated by (1) exhaustive enumeration of all ordered pairs of the boundary grid under all 11 operators, (2) rapid-generated 64-bit patterns (raw bits, 2^k+-3, top of range, small, grid). Non-trivial: an operand within 2 of a 64-bit limit, or NaN/Inf/-0/subnormal/|x|>=2^63, or an int within 2 of 2^53, or a same-kind pair whose difference overflows the type. Distinct by the 5-tuple.")
	r.Assume("oracle is math/big exact arithmetic and Go float64 IEEE operations", "mixed int/uint64, int/char comparison, char arithmetic, float mod, MinInt64/-1 are outside the statement and not generated (counted as out-of-domain)")

	// (1) exhaustive grid
	grid := numGrid()
	ops := append(append([]string{}, cmpOps...), arithOps...)
	var n int64
	if ev.Shard() == 0 {
		for _, a := range grid {
			for _, b := range grid {
				for _, op := range ops {
					c := numCase{op, a, b}
					if !c.inDomain() {
						r.Exclude("out-of-domain")
						continue
					}
					n++
					f := checkNum(c)
					r.Count("grid", numKey(c), numNonTrivial(c), "grid", "op:"+op, "kinds:"+a.Kind+"/"+b.Kind)
					if n%1500 == 1 {
						r.Sample("grid", fmt.Sprintf("(%s %s %s)", op, a, b))
					}
					p.reportEnum("num", c, f)
				}
			}
		}
		r.ExhaustiveSpace("boundary-grid pairs x operators (in-domain)", n)
	}

	// (2) random patterns
	kindSets := [][]string{{"int"}, {"uint"}, {"float"}, {"char"}, {"int", "float"}, {"char", "float"}, {"uint", "float"}}
	p.rapidSub("num", ev.Scale(20000, 4000000), func(t *rapid.T) {
		ks := rapid.SampledFrom(kindSets).Draw(t, "kinds")
		c := numCase{
			Op: rapid.SampledFrom(ops).Draw(t, "op"),
			A:  genOperand(ks).Draw(t, "a"),
			B:  genOperand(ks).Draw(t, "b"),
		}
		if !c.inDomain() {
			r.Exclude("out-of-domain")
			return
		}
		nt := numNonTrivial(c)
		r.Count("random", numKey(c), nt, "random", "op:"+c.Op, "kinds:"+c.A.Kind+"/"+c.B.Kind)
		if nt {
			r.Sample("random-nontrivial", fmt.Sprintf("(%s %s %s)", c.Op, c.A, c.B))
		}
		p.report(t, "num", c, checkNum(c))
	})
	sharedNumEnv.drop()
	p.done()
}
