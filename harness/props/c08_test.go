package props

import (
	"bufio"
	"crypto/sha256"
	"encoding/hex"
	"encoding/json"
	"fmt"
	"go/ast"
	"go/parser"
	"go/token"
	"os"
	"os/exec"
	"path/filepath"
	"sort"
	"strconv"
	"strings"
	"testing"
	"time"

	"github.com/glycerine/zygomys/v9/zygo"
	"pgregory.net/rapid"

	"verif/harness/ev"
)

// C08 — a sandboxed interpreter cannot reach the outside world.
//
// Probes run in CHILD processes (this test binary re-executed, or cmd/zygo -sandbox); the
// canaries are observed from outside the interpreter: a directory with a readable canary
// file (valid zygo that defines canaryLeak and holds a secret), a shell command that would
// create a marker file, an environment variable holding a secret, and the life of the child.

const (
	c08FileSecret = "CANARY-SECRET-7c1f93"
	c08EnvSecret  = "ENVSECRET-91ab77"
	c08EnvName    = "VERIF_CANARY"
)

type c08Probe struct {
	ID   int    `json:"id"`
	Text string `json:"text"`
	Name string `json:"name"`  // the name under test
	Form string `json:"shape"` // argument shape / route
}

type c08Spec struct {
	Config string     `json:"config"` // bare | std
	Dir    string     `json:"dir"`
	Probes []c08Probe `json:"probes"`
}

type c08Result struct {
	ID      int      `json:"id"`
	Start   bool     `json:"start,omitempty"`
	Val     string   `json:"val,omitempty"`
	Err     string   `json:"err,omitempty"`
	Panic   string   `json:"panic,omitempty"`
	Leaks   []string `json:"leaks,omitempty"`
	Bound   bool     `json:"bound"` // the name was bound / a special form in this configuration
	Budget  bool     `json:"budget,omitempty"`
	Skipped bool     `json:"skipped,omitempty"`
}

func c08NewEnv(config string) *zygo.Zlisp {
	env := zygo.NewZlispSandbox()
	if config == "std" {
		env.StandardSetup()
	}
	return env
}

func dirFingerprint(dir string) string {
	var parts []string
	filepath.Walk(dir, func(p string, info os.FileInfo, err error) error {
		if err != nil || info == nil {
			return nil
		}
		rel, _ := filepath.Rel(dir, p)
		if info.IsDir() {
			parts = append(parts, "d:"+rel)
			return nil
		}
		b, _ := os.ReadFile(p)
		h := sha256.Sum256(b)
		parts = append(parts, "f:"+rel+":"+hex.EncodeToString(h[:6]))
		return nil
	})
	sort.Strings(parts)
	return strings.Join(parts, "|")
}

// TestC08Child runs a batch of probes; it is only meaningful when started by the parent.
func TestC08Child(t *testing.T) {
	specPath := os.Getenv("VERIF_C08_SPEC")
	if specPath == "" {
		t.Skip("not a child")
	}
	b, err := os.ReadFile(specPath)
	if err != nil {
		t.Fatal(err)
	}
	var spec c08Spec
	if err := json.Unmarshal(b, &spec); err != nil {
		t.Fatal(err)
	}
	out, err := os.OpenFile(specPath+".out", os.O_CREATE|os.O_WRONLY|os.O_TRUNC, 0o644)
	if err != nil {
		t.Fatal(err)
	}
	defer out.Close()
	emit := func(r c08Result) {
		j, _ := json.Marshal(r)
		out.Write(append(j, '\n'))
		out.Sync()
	}
	os.Chdir(spec.Dir)
	baseFP := dirFingerprint(spec.Dir)
	for _, pr := range spec.Probes {
		emit(c08Result{ID: pr.ID, Start: true})
		env := c08NewEnv(spec.Config)
		res := c08Result{ID: pr.ID}
		// is the name bound (or a special form) here?
		if pr.Name != "" {
			for _, lst := range [][]string{env.VerifGlobalNames(), env.VerifBuiltinNames(), env.VerifMacroNames()} {
				for _, n := range lst {
					if n == pr.Name {
						res.Bound = true
					}
				}
			}
		}
		var printed string
		r := evalString(env, pr.Text+"\n", 50000)
		res.Budget = r.Budget
		res.Panic = r.Panic
		if r.Err != nil {
			res.Err = firstLine(r.Err.Error())
			// an error text that quotes file content is a leak too
			printed = r.Err.Error()
		}
		if r.Val != nil && r.Panic == "" {
			s, _ := printSexp(r.Val)
			printed += " " + s
			if raw, ok := r.Val.(*zygo.SexpRaw); ok {
				printed += " " + string(raw.Val)
			}
		}
		if len(printed) > 300 {
			res.Val = printed[:300]
		} else {
			res.Val = printed
		}
		if strings.Contains(printed, c08FileSecret) || strings.Contains(printed, "424242") {
			res.Leaks = append(res.Leaks, "file-content-in-result")
		}
		if strings.Contains(printed, c08EnvSecret) {
			res.Leaks = append(res.Leaks, "environment-value-in-result")
		}
		// did the script-visible state get the canary definition?
		env.Clear()
		if q := evalString(env, "canaryLeak\n", 1000); q.Err == nil && q.Panic == "" {
			res.Leaks = append(res.Leaks, "canary-file-was-evaluated")
		}
		// any global now holding the secret?
		for _, g := range env.VerifGlobalNames() {
			if g == "" {
				continue
			}
			if obj, ok := env.FindObject(g); ok {
				if s, isStr := obj.(*zygo.SexpStr); isStr && (strings.Contains(s.S, c08FileSecret) || strings.Contains(s.S, c08EnvSecret)) {
					res.Leaks = append(res.Leaks, "secret-in-global:"+g)
				}
			}
		}
		if fp := dirFingerprint(spec.Dir); fp != baseFP {
			res.Leaks = append(res.Leaks, "file-system-changed")
			baseFP = fp
		}
		if os.Getenv(c08EnvName) != c08EnvSecret {
			res.Leaks = append(res.Leaks, "environment-variable-changed")
			os.Setenv(c08EnvName, c08EnvSecret)
		}
		if os.Getenv("VERIF_SET_BY_SCRIPT") != "" {
			res.Leaks = append(res.Leaks, "environment-variable-set")
			os.Unsetenv("VERIF_SET_BY_SCRIPT")
		}
		env.Close()
		emit(res)
	}
}

// specialForms extracts the case labels of the switch in GenerateCallBySymbol.
func specialForms() []string {
	repo := os.Getenv("VERIF_REPO")
	if repo == "" {
		repo = "/repo"
	}
	fset := token.NewFileSet()
	f, err := parser.ParseFile(fset, filepath.Join(repo, "zygo", "generator.go"), nil, 0)
	if err != nil {
		return nil
	}
	var out []string
	ast.Inspect(f, func(n ast.Node) bool {
		fd, ok := n.(*ast.FuncDecl)
		if !ok || fd.Name.Name != "GenerateCallBySymbol" {
			return true
		}
		ast.Inspect(fd, func(m ast.Node) bool {
			cc, ok := m.(*ast.CaseClause)
			if !ok {
				return true
			}
			for _, e := range cc.List {
				if bl, ok := e.(*ast.BasicLit); ok && bl.Kind == token.STRING {
					if s, err := strconv.Unquote(bl.Value); err == nil {
						out = append(out, s)
					}
				}
			}
			return true
		})
		return false
	})
	sort.Strings(out)
	return out
}

func c08Universe(config string) []string {
	env := c08NewEnv(config)
	defer env.Close()
	set := map[string]bool{}
	for _, lst := range [][]string{env.VerifGlobalNames(), env.VerifBuiltinNames(), env.VerifMacroNames(), specialForms()} {
		for _, n := range lst {
			if n != "" {
				set[n] = true
			}
		}
	}
	// names of the outside-world functions: they must not be reachable under these (or any) names
	for n := range zygo.SystemFunctions() {
		set[n] = true
	}
	for n := range zygo.AllBuiltinFunctions() {
		set[n] = true
	}
	var out []string
	for n := range set {
		out = append(out, n)
	}
	sort.Strings(out)
	return out
}

// channel operations block by design; they are not outside-world access
var c08Blocking = map[string]bool{"send": true, "<!": true, "makeChan": false}

func c08ArgShapes(dir string) map[string]string {
	cf := filepath.Join(dir, "canary.zy")
	shell := "touch " + filepath.Join(dir, "pwned")
	return map[string]string{
		"path":          strconv.Quote(cf),
		"path-x":        strconv.Quote(cf) + ` "x"`,
		"newfile-data":  strconv.Quote(filepath.Join(dir, "created.txt")) + ` "data"`,
		"data-newfile":  `"data" ` + strconv.Quote(filepath.Join(dir, "created2.txt")),
		"list-of-path":  "(list " + strconv.Quote(cf) + ")",
		"array-of-path": "[" + strconv.Quote(cf) + "]",
		"shell":         strconv.Quote(shell),
		"shell-words":   "touch " + filepath.Join(dir, "pwned2"),
		"envname":       strconv.Quote(c08EnvName),
		"envname-val":   strconv.Quote("VERIF_SET_BY_SCRIPT") + ` "1"`,
		"envname-over":  strconv.Quote(c08EnvName) + ` "changed"`,
		"int":           "3",
		"none":          "",
		"path-sym":      "(quote " + strings.ReplaceAll(cf, "/", "_") + ")",
		"relative-path": `"canary.zy"`,
		"pkg-path":      strconv.Quote(strings.TrimSuffix(cf, ".zy")),
	}
}

func runC08Batch(t *testing.T, scratch string, spec c08Spec, batchNo int) (results map[int]c08Result, died int) {
	self := os.Getenv("VERIF_SELF")
	if self == "" {
		self, _ = os.Executable()
	}
	specPath := filepath.Join(scratch, fmt.Sprintf("spec-%d.json", batchNo))
	b, _ := json.Marshal(spec)
	os.WriteFile(specPath, b, 0o644)
	os.Remove(specPath + ".out")
	cmd := exec.Command(self, "-test.run", "^TestC08Child$", "-test.timeout", "120s")
	cmd.Env = append(os.Environ(), "VERIF_C08_SPEC="+specPath, c08EnvName+"="+c08EnvSecret)
	cmd.Dir = spec.Dir
	done := make(chan error, 1)
	cmd.Start()
	go func() { done <- cmd.Wait() }()
	select {
	case <-done:
	case <-time.After(100 * time.Second):
		cmd.Process.Kill()
		<-done
	}
	results = map[int]c08Result{}
	died = -1
	f, err := os.Open(specPath + ".out")
	if err != nil {
		return results, -2
	}
	defer f.Close()
	sc := bufio.NewScanner(f)
	sc.Buffer(make([]byte, 1<<20), 1<<20)
	inFlight := -1
	for sc.Scan() {
		var r c08Result
		if json.Unmarshal(sc.Bytes(), &r) != nil {
			continue
		}
		if r.Start {
			inFlight = r.ID
			continue
		}
		results[r.ID] = r
		inFlight = -1
	}
	return results, inFlight
}

func c08SetupDir(scratch string, n int) string {
	dir := filepath.Join(scratch, fmt.Sprintf("canary-%d", n))
	os.RemoveAll(dir)
	os.MkdirAll(dir, 0o755)
	os.WriteFile(filepath.Join(dir, "canary.zy"), []byte("(def canaryLeak 424242)\n\""+c08FileSecret+"\"\n"), 0o644)
	os.WriteFile(filepath.Join(dir, "canary"), []byte("(def canaryLeak 424242)\n\""+c08FileSecret+"\"\n"), 0o644)
	return dir
}

// c08Run executes probes (in batches; a probe that kills or hangs the child is attributed and the rest re-run)
func c08Run(t *testing.T, p *propRun, scratch, config string, probes []c08Probe, sub string) {
	r := p.r
	batchNo := 0
	remaining := probes
	for len(remaining) > 0 {
		batchNo++
		n := len(remaining)
		if n > 400 {
			n = 400
		}
		dir := c08SetupDir(scratch, batchNo)
		batch := remaining[:n]
		// argument shapes were rendered against a placeholder directory
		for i := range batch {
			batch[i].Text = strings.ReplaceAll(batch[i].Text, "@DIR@", dir)
		}
		spec := c08Spec{Config: config, Dir: dir, Probes: batch}
		results, inFlight := runC08Batch(t, scratch, spec, batchNo)
		consumed := 0
		for _, pr := range batch {
			res, ok := results[pr.ID]
			if !ok {
				break
			}
			consumed++
			nt := res.Bound || contains(specialForms(), pr.Name)
			r.Count(sub, ev.Hash64(config, pr.Name, pr.Form, pr.Text), nt, "config:"+config, "shape:"+pr.Form)
			if nt && len(res.Leaks) == 0 && consumed%97 == 1 {
				r.Sample(sub, map[string]any{"config": config, "probe": pr.Text, "result": res.Val, "error": res.Err})
			}
			if res.Panic != "" && !strings.Contains(res.Panic, "budget") {
				// a Go panic escaping is C01's business; recorded as a label only
				r.Label("probe-panicked")
			}
			for _, leak := range res.Leaks {
				kind := leak
				if i := strings.Index(kind, ":"); i >= 0 {
					kind = kind[:i]
				}
				f := &ev.Failure{Sig: fmt.Sprintf("%s:%s:%s", config, pr.Name, kind), Msg: fmt.Sprintf("config=%s: %s reaches the outside world: %s", config, pr.Text, leak), Expected: "an error or a harmless value", Observed: res.Val}
				p.reportEnum(sub, map[string]any{"config": config, "text": pr.Text, "name": pr.Name, "shape": pr.Form}, f)
			}
		}
		if consumed < len(batch) {
			// the child died or hung while running batch[consumed]
			culprit := batch[consumed]
			if inFlight == culprit.ID {
				if c08Blocking[culprit.Name] || strings.Contains(culprit.Text, "makeChan") {
					r.Exclude("blocking-channel-operation")
				} else {
					f := &ev.Failure{Sig: fmt.Sprintf("%s:%s:host-process-ended", config, culprit.Name), Msg: fmt.Sprintf("config=%s: %s ended or hung the host process", config, culprit.Text), Expected: "an error", Observed: "child process died / hung"}
					p.reportEnum(sub, map[string]any{"config": config, "text": culprit.Text, "name": culprit.Name, "shape": culprit.Form}, f)
				}
			} else {
				r.Inconclusive(fmt.Sprintf("child ended without a probe in flight (config %s, batch %d)", config, batchNo))
			}
			consumed++
		}
		remaining = remaining[consumed:]
		os.RemoveAll(dir)
	}
}

// replay of a single probe (runs in a child as well)
type c08ReplayCase struct {
	Config string `json:"config"`
	Text   string `json:"text"`
	Name   string `json:"name"`
	Form   string `json:"shape"`
}

func checkC08Probe(c c08ReplayCase) *ev.Failure {
	scratch := os.Getenv("VERIF_SCRATCH")
	if scratch == "" {
		scratch, _ = os.MkdirTemp("", "c08replay")
		defer os.RemoveAll(scratch)
	}
	dir := c08SetupDir(scratch, 9999)
	defer os.RemoveAll(dir)
	// the replay text holds the directory of the original run: re-target it
	text := strings.ReplaceAll(c.Text, "@DIR@", dir)
	if i := strings.Index(text, "/canary-"); i >= 0 && !strings.Contains(c.Text, "@DIR@") {
		// find the directory prefix ending in canary-N
		j := strings.LastIndexAny(text[:i], "\" ([")
		k := i + len("/canary-")
		for k < len(text) && text[k] >= '0' && text[k] <= '9' {
			k++
		}
		old := text[j+1 : k]
		text = strings.ReplaceAll(text, old, dir)
	}
	spec := c08Spec{Config: c.Config, Dir: dir, Probes: []c08Probe{{ID: 1, Text: text, Name: c.Name, Form: c.Form}}}
	results, inFlight := runC08Batch(nil, scratch, spec, 9999)
	res, ok := results[1]
	if !ok {
		if inFlight == 1 {
			return &ev.Failure{Sig: fmt.Sprintf("%s:%s:host-process-ended", c.Config, c.Name), Msg: "probe ended the host process: " + text}
		}
		return nil
	}
	if len(res.Leaks) > 0 {
		kind := res.Leaks[0]
		if i := strings.Index(kind, ":"); i >= 0 {
			kind = kind[:i]
		}
		return &ev.Failure{Sig: fmt.Sprintf("%s:%s:%s", c.Config, c.Name, kind), Msg: fmt.Sprintf("config=%s: %s reaches the outside world: %v", c.Config, text, res.Leaks), Observed: res.Val}
	}
	return nil
}

var checkC08ProbeR = reg("C08", "probe", checkC08Probe)

func init() {
	replayers["C08/names"] = replayers["C08/probe"]
	replayers["C08/programs"] = replayers["C08/probe"]
	replayers["C08/cmd"] = replayers["C08/probe"]
	replayers["C08/routes"] = replayers["C08/probe"]
}

func c08IndirectRoutes(name, args string) map[string]string {
	call := "(" + name + " " + args + ")"
	return map[string]string{
		"alias":          "(def zalias " + name + ") (zalias " + args + ")",
		"apply":          "(apply " + name + " [" + args + "])",
		"map":            "(map " + name + " [" + args + "])",
		"eval-quoted":    "(eval (quote " + call + "))",
		"macro":          "(defmac mzz [] ^" + call + ") (mzz)",
		"read-eval":      "(eval (read " + strconv.Quote(call) + "))",
		"infix-block":    "{" + call + "}",
		"inside-fn":      "((fn [] " + call + "))",
		"in-let-binding": "(let [q " + call + "] q)",
		"str2sym-eval":   "(eval (list (str2sym " + strconv.Quote(name) + ") " + args + "))",
		"begin":          "(begin 1 " + call + ")",
		// routes whose code is compiled or run inside a derived interpreter (macro expansion,
		// macexpand, expectError): the restriction must travel with it
		"expect-error":        "(expectError \"\" " + call + ")",
		"macro-body":          "(defmac mzz [] " + call + " 1) (mzz)",
		"macro-body-eval":     "(defmac mzz [] (eval (quote " + call + ")) 1) (mzz)",
		"macexpand-body-eval": "(defmac mzz [] (eval (quote " + call + ")) 1) (macexpand (mzz))",
		"macro-arg-eval":      "(defmac mzz [x] (eval x) 1) (mzz " + call + ")",
		"macro-in-fn":         "(defmac mzz [] (eval (quote " + call + ")) 1) (defn usesm [] (mzz)) (usesm)",
		"for-body":            "(for [(def i 0) (< i 1) (def i (+ i 1))] " + call + ")",
		"closure-later":       "(def later (fn [] " + call + ")) (later)",
	}
}

func TestC08(t *testing.T) {
	p := begin(t, "C08")
	r := p.r
	r.SetRule("names: the name universe is enumerated at check time = every global, builtin and macro of the configured sandbox interpreter, every case label of the compiler's special-form switch (extracted from generator.go with go/parser), and every key of SystemFunctions()/AllBuiltinFunctions() (to catch aliases); each name is called with 16 argument shapes (canary file path as string / relative / package path / list / array / symbol, path+data in both orders, shell command as string and as words, canary environment name alone / with a value, an integer, none) in configurations {bare sandbox, sandbox + StandardSetup}, in child processes. programs: rapid-generated indirections (alias, apply, map, eval of a quoted form, macro, read+eval, infix block, inside fn, let binding, str2sym+eval) of the names that act on files, processes or the environment. routes: every one of 19 routes (the above plus expectError, macro body, macro body doing eval, macexpand of it, eval of a macro argument, macro used inside a function, for body, closure called later) x 18 dangerous names x 16 argument shapes x both configurations, exhaustively. cmd: the real command line tool zygo -sandbox -c <text>. Canaries observed from outside the interpreter: canary file content in the result or error text, canaryLeak bound afterwards, any global holding the secret, directory fingerprint changed (created/modified file), environment variable read (secret in result), changed or set, child process death or hang. Errors are the expected outcome. Non-trivial: the name is bound or a special form in that configuration. Distinct by (config, name, shape/route).")
	r.Assume("effects are only observable through the planted canaries (file read/evaluate, file create/modify, shell marker, environment read/write, process exit)", "send and <! on channels block by design and are skipped when they hang")
	scratch := os.Getenv("VERIF_SCRATCH")
	if scratch == "" {
		var err error
		scratch, err = os.MkdirTemp("", "c08")
		if err != nil {
			t.Fatal(err)
		}
		defer os.RemoveAll(scratch)
	}
	shapes := c08ArgShapes("@DIR@")
	var shapeNames []string
	for s := range shapes {
		shapeNames = append(shapeNames, s)
	}
	sort.Strings(shapeNames)

	// (1) exhaustive name x shape enumeration, both in-process configurations (shard by config)
	id := 0
	for ci, config := range []string{"bare", "std"} {
		if ev.NShards() > 1 && ev.Shard() != ci {
			continue
		}
		uni := c08Universe(config)
		r.SetExtra("universe_size_"+config, len(uni))
		var probes []c08Probe
		for _, name := range uni {
			if strings.ContainsAny(name, "()[]{}\"'`;~%^ ") {
				continue
			}
			for _, sh := range shapeNames {
				id++
				probes = append(probes, c08Probe{ID: id, Name: name, Form: sh, Text: strings.TrimSpace("(" + name + " " + shapes[sh] + ")")})
			}
		}
		c08Run(t, p, scratch, config, probes, "names")
		r.ExhaustiveSpace("names x argument shapes, config "+config, int64(len(probes)))
	}

	// (2) indirect routes (rapid)
	dangerous := []string{"include", "source", "req", "import", "sys", "system", "slurpf", "writef", "owritef", "save", "bsave", "bload", "greenpack", "setenv", "getenv", "exit", "readf", "dump"}
	if ev.NShards() == 1 || ev.Shard() >= 2 {
		var progProbes = map[string][]c08Probe{}
		p.rapidSub("programs", ev.Scale(600, 60000), func(t *rapid.T) {
			config := rapid.SampledFrom([]string{"bare", "std"}).Draw(t, "config")
			name := rapid.SampledFrom(dangerous).Draw(t, "name")
			sh := rapid.SampledFrom(shapeNames).Draw(t, "shape")
			routes := c08IndirectRoutes(name, shapes[sh])
			var rn []string
			for k := range routes {
				rn = append(rn, k)
			}
			sort.Strings(rn)
			route := rapid.SampledFrom(rn).Draw(t, "route")
			text := routes[route]
			if rapid.Bool().Draw(t, "nest") {
				text = "(begin (def keepme 1) (cond true " + strings.ReplaceAll(text, "\n", " ") + " 0))"
				if strings.Contains(text, "(def zalias") || strings.Contains(text, "(defmac") {
					text = routes[route]
				}
			}
			id++
			progProbes[config] = append(progProbes[config], c08Probe{ID: id, Name: name, Form: route + "/" + sh, Text: text})
		})
		for _, config := range []string{"bare", "std"} {
			c08Run(t, p, scratch, config, progProbes[config], "programs")
		}
		// (2b) every route x dangerous name x argument shape, exhaustively
		var rn []string
		for k := range c08IndirectRoutes("x", "") {
			rn = append(rn, k)
		}
		sort.Strings(rn)
		nw, me := 1, 0
		if ev.NShards() > 2 {
			nw, me = ev.NShards()-2, ev.Shard()-2
		}
		total := 0
		for _, config := range []string{"bare", "std"} {
			var probes []c08Probe
			k := 0
			for _, name := range dangerous {
				for _, route := range rn {
					for _, sh := range shapeNames {
						k++
						if k%nw != me {
							continue
						}
						id++
						probes = append(probes, c08Probe{ID: id, Name: name, Form: route + "/" + sh, Text: c08IndirectRoutes(name, shapes[sh])[route]})
					}
				}
			}
			total += k
			c08Run(t, p, scratch, config, probes, "routes")
		}
		if me == 0 {
			r.ExhaustiveSpace("routes x dangerous names x argument shapes x config", int64(total))
		}
	}

	// (3) the real command line tool under -sandbox
	if ev.NShards() == 1 || ev.Shard() == 2 {
		c08CmdTier(t, p, scratch, shapes, shapeNames, dangerous)
	}
	p.done()
}

func c08CmdTier(t *testing.T, p *propRun, scratch string, shapes map[string]string, shapeNames []string, dangerous []string) {
	r := p.r
	goBin := os.Getenv("VERIF_GO")
	repo := os.Getenv("VERIF_REPO")
	if repo == "" {
		repo = "/repo"
	}
	if goBin == "" {
		goBin = "/root/go/pkg/mod/golang.org/toolchain@v0.0.1-go1.24.2.linux-amd64/bin/go"
	}
	bin := filepath.Join(scratch, "zygo-cmd")
	build := exec.Command(goBin, "build", "-o", bin, "./cmd/zygo")
	build.Dir = repo
	build.Env = append(os.Environ(), "GOFLAGS=-mod=mod", "GOPROXY=off", "GOSUMDB=off", "GOTOOLCHAIN=local", "CGO_ENABLED=0")
	if out, err := build.CombinedOutput(); err != nil {
		r.Inconclusive("cannot build cmd/zygo: " + firstLine(string(out)))
		return
	}
	defer os.Remove(bin)
	n := 0
	limit := 120
	if ev.Thorough() {
		limit = 2000
	}
	for _, name := range dangerous {
		for _, sh := range shapeNames {
			if n >= limit {
				break
			}
			n++
			dir := c08SetupDir(scratch, 5000+n)
			text := strings.ReplaceAll("("+name+" "+shapes[sh]+")", "@DIR@", dir)
			base := dirFingerprint(dir)
			cmd := exec.Command(bin, "-sandbox", "-quiet", "-c", text)
			cmd.Dir = dir
			cmd.Env = append(os.Environ(), c08EnvName+"="+c08EnvSecret)
			done := make(chan struct{})
			var out []byte
			go func() { out, _ = cmd.CombinedOutput(); close(done) }()
			select {
			case <-done:
			case <-time.After(20 * time.Second):
				if cmd.Process != nil {
					cmd.Process.Kill()
				}
				<-done
			}
			r.Count("cmd", ev.Hash64("cmd", name, sh), true, "config:cmd", "shape:"+sh)
			if n%40 == 1 {
				r.Sample("cmd", map[string]any{"argv": "zygo -sandbox -quiet -c " + text, "output": firstLine(string(out))})
			}
			var leaks []string
			so := string(out)
			if strings.Contains(so, c08FileSecret) || strings.Contains(so, "424242") {
				leaks = append(leaks, "file-content-in-result")
			}
			if strings.Contains(so, c08EnvSecret) {
				leaks = append(leaks, "environment-value-in-result")
			}
			if dirFingerprint(dir) != base {
				leaks = append(leaks, "file-system-changed")
			}
			if name == "exit" && sh == "int" && cmd.ProcessState != nil && cmd.ProcessState.ExitCode() == 3 {
				leaks = append(leaks, "host-process-ended")
			}
			for _, leak := range leaks {
				f := &ev.Failure{Sig: fmt.Sprintf("cmd:%s:%s", name, leak), Msg: fmt.Sprintf("zygo -sandbox -c %s reaches the outside world: %s", text, leak), Expected: "an error", Observed: firstLine(so)}
				p.reportEnum("cmd", map[string]any{"config": "std", "text": text, "name": name, "shape": sh}, f)
			}
			os.RemoveAll(dir)
		}
	}
}
