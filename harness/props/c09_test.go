package props

import (
	"fmt"
	"strings"
	"testing"

	"github.com/glycerine/zygomys/v9/zygo"
	"pgregory.net/rapid"

	"verif/harness/ev"
)

// C09 — tail calls are free and invisible.
//
// A case is a self-recursive function shape: the self call sits in tail position under a
// composition of cond arm / begin last / let, letseq, newScope body last / last arm of and, or.
// (1) transparency: value, trace and what collected closures return equal the reference
//     evaluator (which performs ordinary calls) at small depths;
// (2) space: the high-water marks of the four VM stacks, sampled at every call through a
//     pre-call hook, are identical for recursion depths 10, 100, 1000, 10000 (thorough: more).

type tailCase struct {
	Forms  []*Node  `json:"forms"`  // the definitions (defn f ...) and helpers
	Fn     string   `json:"fn"`     // name of the recursive function
	Extra  []*Node  `json:"extra"`  // extra arguments after (n acc)
	Acc0   *Node    `json:"acc0"`   // initial accumulator
	Final  string   `json:"final"`  // how the result is observed: "id" | "callall" | "len"
	Labels []string `json:"labels"` // context kinds used
	Tail   bool     `json:"tail"`   // false for non-tail look-alikes (only transparency is checked)
	Zero   bool     `json:"zero"`   // the function takes no parameters: n, acc and the closure list clos are globals
}

func (c tailCase) callAt(depth int64) []*Node {
	if c.Zero {
		// (def n depth) (def acc 0) (def clos nil) <defn> (tf) then the closures collected on the way
		forms := []*Node{NDef("n", NInt(depth)), NDef("acc", NInt(0)), NDef("clos", NNil())}
		forms = append(forms, cloneForms(c.Forms)...)
		forms = append(forms, NTrace(NCall(NVar(c.Fn))))
		forms = append(forms, NPrim("map", &Node{K: "fn", Names: []string{"cl"}, Kids: []*Node{NCall(NVar("cl"))}}, NVar("clos")))
		return forms
	}
	call := NCall(NVar(c.Fn), NInt(depth), cloneNode(c.Acc0))
	for _, e := range c.Extra {
		call.Kids = append(call.Kids, cloneNode(e))
	}
	var obs *Node
	switch c.Final {
	case "callall":
		// call every collected closure: what they captured must be per-iteration
		obs = NPrim("map", &Node{K: "fn", Names: []string{"cl"}, Kids: []*Node{NCall(NVar("cl"))}}, call)
	case "len":
		obs = NPrim("len", call)
	default:
		obs = call
	}
	return append(cloneForms(c.Forms), obs)
}

// generator -------------------------------------------------------------------

type tailGen struct {
	t      *rapid.T
	labels map[string]bool
	traced bool
}

func (g *tailGen) lab(s string) { g.labels[s] = true }

// wrapTail wraps e (which is in tail position) in k tail-preserving contexts.
func (g *tailGen) wrapTail(e *Node, k int, other func() *Node) *Node {
	for i := 0; i < k; i++ {
		switch rapid.IntRange(0, 7).Draw(g.t, "ctx") {
		case 0:
			g.lab("begin-last")
			eff := NPrim("+", NVar("n"), NInt(1))
			if g.traced {
				eff = NTrace(NVar("n"))
			}
			e = N("begin", eff, e)
		case 1:
			g.lab("let-body-last")
			e = &Node{K: "let", Names: []string{"t1"}, Kids: []*Node{NPrim("*", NVar("n"), NInt(2)), e}}
		case 2:
			g.lab("letseq-body-last")
			e = &Node{K: "letseq", Names: []string{"t2", "t3"}, Kids: []*Node{NVar("n"), NPrim("+", NVar("t2"), NInt(1)), e}}
		case 3:
			g.lab("newScope-last")
			e = N("newScope", NDef("q1", NPrim("-", NVar("n"), NInt(1))), e)
		case 4:
			g.lab("and-last-arm")
			e = N("and", NBool(true), NInt(1), e)
		case 5:
			g.lab("or-last-arm")
			e = N("or", NBool(false), NNil(), e)
		case 6:
			g.lab("cond-arm")
			e = N("cond", NPrim("==", NPrim("mod", NVar("n"), NInt(2)), NInt(0)), e, other())
		default:
			g.lab("cond-default-arm")
			e = N("cond", NPrim("<", NVar("n"), NInt(-5)), NInt(-1), e)
		}
	}
	return e
}

// genZeroParamCase: a self tail-recursive function WITHOUT parameters, driven by globals; every
// activation defines a function-level local and collects a closure over it (each activation must
// get its own scope although there is no parameter to rebind)
func genZeroParamCase(t *rapid.T, traced bool) tailCase {
	g := &tailGen{t: t, labels: map[string]bool{}, traced: traced}
	c := tailCase{Fn: "tf", Tail: true, Final: "id", Zero: true, Acc0: NInt(0)}
	g.lab("no-parameters")
	rec := N("begin", NSet("acc", NPrim("+", NVar("acc"), NVar("n"))), NSet("n", NPrim("-", NVar("n"), NInt(1))), NCall(NVar("tf")))
	base := func() *Node { return NVar("acc") }
	core := N("cond", NPrim("<=", NVar("n"), NInt(0)), base(), rec)
	k := rapid.IntRange(0, 3).Draw(t, "depth")
	other := func() *Node { return N("cond", NPrim("<=", NVar("n"), NInt(0)), base(), cloneNode(rec)) }
	body := g.wrapTail(core, k, other)
	fn := &Node{K: "defn", S: "tf"}
	switch rapid.IntRange(0, 2).Draw(t, "zlocal") {
	case 0:
		g.lab("closure-captures-local")
		fn.Kids = append(fn.Kids, NDef("loc", NPrim("*", NVar("n"), NInt(10))),
			NSet("clos", NPrim("cons", &Node{K: "fn", Kids: []*Node{NVar("loc")}}, NVar("clos"))))
	case 1:
		// a local defined only in the first activation must not be visible in later ones
		g.lab("local-defined-in-one-activation-only")
		fn.Kids = append(fn.Kids, N("cond", NPrim("==", NPrim("mod", NVar("n"), NInt(3)), NInt(0)), NDef("acc", NInt(1000)), NNil()))
	default:
		g.lab("closure-captures-let-local")
		fn.Kids = append(fn.Kids, &Node{K: "let", Names: []string{"lv"}, Kids: []*Node{NPrim("+", NVar("n"), NInt(100)),
			NSet("clos", NPrim("cons", &Node{K: "fn", Kids: []*Node{NVar("lv")}}, NVar("clos")))}})
	}
	fn.Kids = append(fn.Kids, body)
	c.Forms = []*Node{fn}
	for l := range g.labels {
		c.Labels = append(c.Labels, l)
	}
	sortStrings(c.Labels)
	return c
}

func genTailCase(t *rapid.T, traced bool) tailCase {
	g := &tailGen{t: t, labels: map[string]bool{}, traced: traced}
	c := tailCase{Fn: "tf", Tail: true, Final: "id"}
	params := []string{"n", "acc"}
	variadic := false
	accKind := rapid.SampledFrom([]string{"int", "int-to-float", "list", "closures-n", "closures-local", "array"}).Draw(t, "acc")
	var accNext *Node
	c.Acc0 = NInt(0)
	switch accKind {
	case "int":
		accNext = NPrim("+", NVar("acc"), NVar("n"))
	case "int-to-float":
		g.lab("parameter-type-changes")
		accNext = NPrim("+", NVar("acc"), NFloat(0.5))
	case "list":
		g.lab("parameter-type-changes")
		c.Acc0 = NNil()
		accNext = NPrim("cons", NVar("n"), NVar("acc"))
		c.Final = "len"
	case "array":
		g.lab("parameter-type-changes")
		c.Acc0 = N("arr")
		accNext = NPrim("append", NVar("acc"), NVar("n"))
		c.Final = "len"
	case "closures-n":
		g.lab("closure-captures-parameter")
		c.Acc0 = NNil()
		accNext = NPrim("cons", &Node{K: "fn", Kids: []*Node{NVar("n")}}, NVar("acc"))
		c.Final = "callall"
	case "closures-local":
		g.lab("closure-captures-local")
		c.Acc0 = NNil()
		accNext = NPrim("cons", &Node{K: "fn", Kids: []*Node{NPrim("+", NVar("loc"), NVar("n"))}}, NVar("acc"))
		c.Final = "callall"
	}
	rec := NCall(NVar("tf"), NPrim("-", NVar("n"), NInt(1)), accNext)
	switch rapid.IntRange(0, 3).Draw(t, "extraKind") {
	case 1:
		params = append(params, "k")
		c.Extra = []*Node{NInt(3)}
		rec.Kids = append(rec.Kids, NVar("k"))
		g.lab("extra-parameter")
	case 2:
		params = append(params, "more")
		variadic = true
		g.lab("variadic")
		switch rapid.IntRange(0, 2).Draw(t, "vx") {
		case 0:
			c.Extra = nil
		case 1:
			c.Extra = []*Node{NInt(1)}
			rec.Kids = append(rec.Kids, NVar("n"))
		default:
			c.Extra = []*Node{NInt(1), NInt(2)}
			rec.Kids = append(rec.Kids, NVar("n"), NVar("n"), NVar("n"))
		}
	}
	base := func() *Node { return NVar("acc") }
	core := N("cond", NPrim("<=", NVar("n"), NInt(0)), base(), rec)
	g.lab("cond-arm")
	k := rapid.IntRange(0, 4).Draw(t, "depth")
	other := func() *Node {
		// a second tail call in the other arm
		r2 := cloneNode(rec)
		return N("cond", NPrim("<=", NVar("n"), NInt(0)), base(), r2)
	}
	body := g.wrapTail(core, k, other)
	fn := &Node{K: "defn", S: "tf", Names: params, Var: variadic}
	if accKind == "closures-local" || rapid.Bool().Draw(t, "local") {
		g.lab("defines-local-before-tail-call")
		fn.Kids = append(fn.Kids, NDef("loc", NPrim("*", NVar("n"), NInt(10))))
	}
	if rapid.IntRange(0, 3).Draw(t, "innerdef") == 0 {
		g.lab("inner-defn-before-tail-call")
		fn.Kids = append(fn.Kids, &Node{K: "defn", S: "helper", Names: []string{"z"}, Kids: []*Node{NPrim("+", NVar("z"), NVar("n"))}})
	}
	fn.Kids = append(fn.Kids, body)
	c.Forms = []*Node{fn}
	if k >= 2 {
		g.lab("nested>=2")
	}
	for l := range g.labels {
		c.Labels = append(c.Labels, l)
	}
	sortStrings(c.Labels)
	return c
}

// non-tail look-alikes: the self call is in a position that must NOT be a jump
func genLookAlike(t *rapid.T) tailCase {
	c := tailCase{Fn: "tf", Tail: false, Final: "id", Acc0: NInt(0)}
	// operands are chosen so that "jumped" and "called" give different values at every depth
	rec := NCall(NVar("tf"), NPrim("-", NVar("n"), NInt(1)), NPrim("+", NVar("acc"), NInt(3)))
	var step *Node
	kind := rapid.SampledFrom([]string{"let-binding", "letseq-binding", "argument", "array-literal", "assert", "cond-predicate", "and-first-arm", "and-middle-arm", "and-arm-inside-let", "non-final-in-begin", "def-value", "for-body", "name-rebound-by-let", "name-rebound-by-parameter"}).Draw(t, "look")
	switch kind {
	case "let-binding":
		step = &Node{K: "let", Names: []string{"r"}, Kids: []*Node{rec, NPrim("+", NVar("r"), NPrim("*", NVar("n"), NInt(100)))}}
	case "letseq-binding":
		step = &Node{K: "letseq", Names: []string{"u", "r"}, Kids: []*Node{NInt(1), rec, NPrim("+", NVar("r"), NVar("u"))}}
	case "argument":
		step = NPrim("+", NInt(1), rec)
	case "array-literal":
		step = NPrim("+", NPrim("aget", N("arr", rec, NVar("n")), NInt(0)), NPrim("*", NVar("n"), NInt(100)))
	case "assert":
		step = N("begin", &Node{K: "assert", Kids: []*Node{NPrim(">=", rec, NInt(0))}}, NPrim("*", NVar("n"), NInt(100)))
	case "cond-predicate":
		step = N("cond", NPrim(">=", rec, NInt(0)), NPrim("*", NVar("n"), NInt(100)), NInt(-1))
	case "and-first-arm":
		step = N(rapid.SampledFrom([]string{"and", "and", "or"}).Draw(t, "scop"), rec, NPrim("*", NVar("n"), NInt(100)))
	case "and-middle-arm":
		step = N("and", NBool(true), rec, NPrim("*", NVar("n"), NInt(100)))
	case "and-arm-inside-let":
		step = &Node{K: "let", Names: []string{"m"}, Kids: []*Node{NInt(1), N("or", NBool(false), rec, NVar("m"))}}
		// (or false rec m): rec is truthy unless 0, so the value is rec's value: make the difference visible
		step = NPrim("+", step, NPrim("*", NVar("n"), NInt(100)))
	case "non-final-in-begin":
		step = N("begin", rec, NPrim("*", NVar("n"), NInt(100)))
	case "def-value":
		step = N("begin", NDef("dv", rec), NPrim("+", NVar("dv"), NPrim("*", NVar("n"), NInt(100))))
	case "name-rebound-by-let":
		// the callee name denotes a local function here: an ordinary call of it, never a jump to the top of tf
		lam := &Node{K: "fn", Names: []string{"a", "b"}, Kids: []*Node{NPrim("+", NVar("a"), NPrim("*", NVar("b"), NInt(1000)))}}
		step = &Node{K: rapid.SampledFrom([]string{"let", "letseq"}).Draw(t, "lk"), Names: []string{"tf"}, Kids: []*Node{lam, rec}}
	case "name-rebound-by-parameter":
		lam := &Node{K: "fn", Names: []string{"a", "b"}, Kids: []*Node{NPrim("+", NVar("a"), NPrim("*", NVar("b"), NInt(1000)))}}
		inner := &Node{K: "defn", S: "inr", Names: []string{"inr", "k"}, Kids: []*Node{NCall(NVar("inr"), NVar("k"), NPrim("+", NVar("acc"), NInt(3)))}}
		step = N("begin", inner, NCall(NVar("inr"), lam, NVar("n")))
	case "for-body":
		step = N("begin", NDef("fb", NInt(0)), &Node{K: "for", Kids: []*Node{NDef("i", NInt(0)), NPrim("<", NVar("i"), NInt(1)), NDef("i", NPrim("+", NVar("i"), NInt(1))), NSet("fb", rec)}}, NVar("fb"))
	}
	fn := &Node{K: "defn", S: "tf", Names: []string{"n", "acc"}, Kids: []*Node{N("cond", NPrim("<=", NVar("n"), NInt(0)), NTrace(NVar("acc")), step)}}
	c.Forms = []*Node{fn}
	c.Labels = []string{"look-alike:" + kind}
	return c
}

// checks -----------------------------------------------------------------------

type tailTransparency struct {
	C     tailCase `json:"c"`
	Depth int64    `json:"depth"`
}

func checkTailTransparent(tc tailTransparency) *ev.Failure {
	forms := tc.C.callAt(tc.Depth)
	pc := progCase{Forms: forms}
	f, _, _ := compareWithRef(pc, "")
	if f != nil {
		f.Sig = strings.Join(tc.C.Labels, "+") + ":" + f.Sig
		f.Msg = fmt.Sprintf("depth %d: ", tc.Depth) + f.Msg
	}
	return f
}

var checkTailTransparentR = reg("C09", "transparent", checkTailTransparent)

type stackMarks struct{ Data, Scope, Addr, Loop int }

func runWithMarks(text string, budget int64) (res evalResult, hw stackMarks, calls int) {
	env := newEnv(envFull)
	defer env.Close()
	env.AddFunction("trace", func(env *zygo.Zlisp, name string, a []zygo.Sexp) (zygo.Sexp, error) {
		if len(a) == 1 {
			return a[0], nil
		}
		return zygo.SexpNull, nil
	})
	env.AddPreHook(func(e *zygo.Zlisp, name string, args []zygo.Sexp) {
		d := e.VerifDepths()
		calls++
		if d.Data > hw.Data {
			hw.Data = d.Data
		}
		if d.Scope > hw.Scope {
			hw.Scope = d.Scope
		}
		if d.Addr > hw.Addr {
			hw.Addr = d.Addr
		}
		if d.Loop > hw.Loop {
			hw.Loop = d.Loop
		}
	})
	res = evalString(env, text, budget)
	return
}

type tailSpace struct {
	C      tailCase `json:"c"`
	Depths []int64  `json:"depths"`
}

func checkTailSpace(ts tailSpace) *ev.Failure {
	var first *stackMarks
	var firstDepth int64
	sig := strings.Join(ts.C.Labels, "+")
	for _, d := range ts.Depths {
		text := RenderProgram(ts.C.callAt(d))
		res, hw, _ := runWithMarks(text, 200*d+200000)
		if res.Panic != "" {
			return &ev.Failure{Sig: sig + ":panic", Msg: fmt.Sprintf("depth %d panics\n%s", d, text), Observed: res.Panic}
		}
		if res.Budget {
			return &ev.Failure{Sig: sig + ":does-not-complete", Msg: fmt.Sprintf("tail recursion of depth %d did not complete within %d VM steps\n%s", d, 200*d+200000, text), Expected: "completes", Observed: "step budget exhausted"}
		}
		if res.Err != nil {
			return &ev.Failure{Sig: sig + ":error-at-depth", Msg: fmt.Sprintf("tail recursion of depth %d fails\n%s", d, text), Expected: "a value", Observed: firstLine(res.Err.Error())}
		}
		if first == nil {
			h := hw
			first, firstDepth = &h, d
			continue
		}
		if hw != *first {
			return &ev.Failure{Sig: sig + ":space-grows", Msg: fmt.Sprintf("stack high-water marks differ between depth %d and depth %d\n%s", firstDepth, d, text),
				Expected: fmt.Sprintf("%+v", *first), Observed: fmt.Sprintf("%+v", hw)}
		}
	}
	return nil
}

var checkTailSpaceR = reg("C09", "space", checkTailSpace)

func TestC09(t *testing.T) {
	p := begin(t, "C09")
	r := p.r
	r.SetRule("case = self-recursive function shape: the self call in tail position under 0-4 nested contexts drawn from {cond arm, begin last, let / letseq / newScope body last, last arm of and / or}, with accumulators that stay int, change type (int->float, nil->list, []->array), or collect closures capturing the parameter or a local defined before the call; optional extra and variadic parameters, inner defn; functions WITHOUT parameters driven by globals that define a function-level or let local per activation and collect closures over it; plus non-tail look-alikes (self call in a let binding, argument, array literal, assert, cond predicate, first and-arm, def value, for body). transparent: value, trace and the results of calling the collected closures equal the reference evaluator (ordinary calls) at depths 0..50. space: data/scope/address/loop stack high-water marks sampled by a pre-call hook are IDENTICAL at depths 10, 100, 1000, 10000 (thorough: 100000) and the run completes within 200 VM steps per level. Non-trivial: tail call under >=2 contexts or crossing a scope-creating context, and depth >=100 run. Distinct by source text.")
	depthsQuick := []int64{10, 100, 1000, 10000}
	depthsThorough := []int64{10, 100, 1000, 10000, 100000}

	p.rapidSub("transparent", ev.Scale(1500, 300000), func(t *rapid.T) {
		var c tailCase
		switch rapid.IntRange(0, 7).Draw(t, "lookalike") {
		case 0, 1:
			c = genLookAlike(t)
		case 2:
			c = genZeroParamCase(t, true)
		default:
			c = genTailCase(t, true)
		}
		depth := int64(rapid.IntRange(0, 50).Draw(t, "depth"))
		tc := tailTransparency{C: c, Depth: depth}
		text := RenderProgram(c.callAt(depth))
		nt := len(c.Labels) >= 3 || !c.Tail
		r.Count("transparent", ev.Hash64(text), nt, c.Labels...)
		if nt {
			r.Sample("transparent", text)
		}
		p.report(t, "transparent", tc, checkTailTransparent(tc))
	})
	p.rapidSub("space", ev.Scale(300, 30000), func(t *rapid.T) {
		c := genTailCase(t, false)
		if rapid.IntRange(0, 7).Draw(t, "zero") == 0 {
			c = genZeroParamCase(t, false)
		}
		ds := depthsQuick
		if ev.Thorough() && rapid.IntRange(0, 9).Draw(t, "deep") == 0 {
			ds = depthsThorough
		}
		ts := tailSpace{C: c, Depths: ds}
		text := RenderProgram(c.Forms)
		scopeCtx := false
		for _, l := range c.Labels {
			if l == "let-body-last" || l == "letseq-body-last" || l == "newScope-last" {
				scopeCtx = true
			}
		}
		nt := scopeCtx || contains(c.Labels, "nested>=2")
		r.Count("space", ev.Hash64(text, fmt.Sprint(c.Extra)), nt, c.Labels...)
		if nt {
			r.Sample("space", map[string]any{"program": text, "depths": ds})
		}
		p.report(t, "space", ts, checkTailSpace(ts))
	})
	p.done()
}
