package props

import (
	"bytes"
	"fmt"
	"reflect"
	"strconv"
	"strings"
	"sync"
	"testing"
	"time"

	"github.com/glycerine/zygomys/v9/zygo"
	"pgregory.net/rapid"

	"verif/harness/ev"
)

// C10 — records convert to Go structs and back without loss.
//
// Go values first, records second: a generated Go value of a harness-registered struct type is
// rendered as record source text; (togo r) must fill the registered Go struct with exactly
// that value (reflect.DeepEqual, pointer identity for a shared record); a Go method that hands
// a registered struct back must yield a record with equal fields; an undeclared field or a
// value of the wrong kind must be an error at script level.

type C10Iface interface{ Tag() string }

type C10Base struct {
	BaseVal int `json:"baseval"`
}

type C10Leaf struct {
	N int64   `json:"n"`
	S string  `json:"s"`
	F float64 `json:"f"`
	B bool    `json:"b"`
}

func (l *C10Leaf) Tag() string { return "leaf" }

type C10Mid struct {
	Name     string             `json:"name"`
	Leaf     *C10Leaf           `json:"leaf"`
	Val      C10Leaf            `json:"val"`
	Nums     []int64            `json:"nums"`
	Strs     []string           `json:"strs"`
	Raw      []byte             `json:"raw"`
	Vals     []C10Leaf          `json:"vals"` // structs held by value in a slice
	M        map[string]string  `json:"m"`
	MF       map[string]float64 `json:"mf"`
	Untagged int
}

func (m *C10Mid) Tag() string { return "mid" }

type C10Top struct {
	C10Base
	ID    int        `json:"id"`
	Mid   *C10Mid    `json:"mid"`
	A     *C10Leaf   `json:"a"`
	Bp    *C10Leaf   `json:"bp"`
	Any   C10Iface   `json:"any"`
	Many  []C10Iface `json:"many"`
	Kids  []*C10Leaf `json:"kids"`
	When  time.Time  `json:"when"`
	Ratio float64    `json:"ratio"`
}

func (t *C10Top) EchoMid(m *C10Mid) *C10Mid    { return m }
func (t *C10Top) EchoLeaf(l *C10Leaf) *C10Leaf { return l }
func (t *C10Top) Self() *C10Top                { return t }
func (t *C10Top) SumKids() int64 {
	var s int64
	for _, k := range t.Kids {
		s += k.N
	}
	return s
}

var c10Once sync.Once

func c10Register() {
	c10Once.Do(func() {
		reg := func(name string, mk func() interface{}) {
			rt := &zygo.RegisteredType{GenDefMap: true, Factory: func(env *zygo.Zlisp, h *zygo.SexpHash) (interface{}, error) { return mk(), nil }}
			zygo.GoStructRegistry.RegisterUserdef(rt, true, name)
		}
		reg("c10leaf", func() interface{} { return &C10Leaf{} })
		reg("c10mid", func() interface{} { return &C10Mid{} })
		reg("c10top", func() interface{} { return &C10Top{} })
		reg("c10base", func() interface{} { return &C10Base{} })
		zygo.RegisterDemoStructs()
	})
}

// rendering Go values as record source ---------------------------------------

type c10Render struct {
	globals map[string]zygo.Sexp // values injected with AddGlobal (times, raw bytes)
	n       int
	shuffle uint64
	shared  map[*C10Leaf]string // leaf pointers rendered through a shared name
	prelude []string
}

func (r *c10Render) next() uint64 {
	r.shuffle ^= r.shuffle << 13
	r.shuffle ^= r.shuffle >> 7
	r.shuffle ^= r.shuffle << 17
	return r.shuffle
}

func (r *c10Render) fields(fs []string) string {
	// field order is not significant: shuffle
	for i := len(fs) - 1; i > 0; i-- {
		j := int(r.next() % uint64(i+1))
		fs[i], fs[j] = fs[j], fs[i]
	}
	return strings.Join(fs, " ")
}

func fstr(f float64) string {
	s := strconv.FormatFloat(f, 'g', -1, 64)
	if !strings.ContainsAny(s, ".e") {
		s += ".0"
	}
	return s
}

func (r *c10Render) leaf(l *C10Leaf) string {
	if l == nil {
		return "nil"
	}
	if name, ok := r.shared[l]; ok {
		return name
	}
	var fs []string
	if l.N != 0 {
		fs = append(fs, fmt.Sprintf("n: %d", l.N))
	}
	if l.S != "" {
		fs = append(fs, fmt.Sprintf("s: %q", l.S))
	}
	if l.F != 0 {
		fs = append(fs, "f: "+fstr(l.F))
	}
	if l.B {
		fs = append(fs, "b: true")
	}
	return "(c10leaf " + r.fields(fs) + ")"
}

func (r *c10Render) mid(m *C10Mid) string {
	if m == nil {
		return "nil"
	}
	var fs []string
	if m.Name != "" {
		fs = append(fs, fmt.Sprintf("name: %q", m.Name))
	}
	if m.Leaf != nil {
		fs = append(fs, "leaf: "+r.leaf(m.Leaf))
	}
	if m.Val != (C10Leaf{}) {
		v := m.Val
		fs = append(fs, "val: "+(&c10Render{shuffle: r.next() | 1}).leaf(&v))
	}
	if m.Nums != nil {
		var p []string
		for _, n := range m.Nums {
			p = append(p, fmt.Sprint(n))
		}
		fs = append(fs, "nums: ["+strings.Join(p, " ")+"]")
	}
	if m.Strs != nil {
		var p []string
		for _, s := range m.Strs {
			p = append(p, strconv.Quote(s))
		}
		fs = append(fs, "strs: ["+strings.Join(p, " ")+"]")
	}
	if m.Vals != nil {
		var p []string
		for i := range m.Vals {
			v := m.Vals[i]
			p = append(p, (&c10Render{shuffle: r.next() | 1}).leaf(&v))
		}
		fs = append(fs, "vals: ["+strings.Join(p, " ")+"]")
	}
	if m.Raw != nil {
		r.n++
		g := fmt.Sprintf("graw%d", r.n)
		r.globals[g] = &zygo.SexpRaw{Val: append([]byte{}, m.Raw...)}
		fs = append(fs, "raw: "+g)
	}
	if m.M != nil {
		var p []string
		for _, k := range sortedKeys(m.M) {
			p = append(p, fmt.Sprintf("%q %q", k, m.M[k]))
		}
		fs = append(fs, "m: (hash "+strings.Join(p, " ")+")")
	}
	if m.MF != nil {
		var ks []string
		for k := range m.MF {
			ks = append(ks, k)
		}
		sortStrings(ks)
		var p []string
		for _, k := range ks {
			p = append(p, fmt.Sprintf("%q %s", k, fstr(m.MF[k])))
		}
		fs = append(fs, "mf: (hash "+strings.Join(p, " ")+")")
	}
	if m.Untagged != 0 {
		fs = append(fs, fmt.Sprintf("Untagged: %d", m.Untagged))
	}
	return "(c10mid " + r.fields(fs) + ")"
}

func sortedKeys(m map[string]string) []string {
	var ks []string
	for k := range m {
		ks = append(ks, k)
	}
	sortStrings(ks)
	return ks
}

func (r *c10Render) iface(v C10Iface) string {
	switch x := v.(type) {
	case *C10Leaf:
		return r.leaf(x)
	case *C10Mid:
		return r.mid(x)
	}
	return "nil"
}

func (r *c10Render) top(t *C10Top) string {
	var fs []string
	if t.BaseVal != 0 {
		fs = append(fs, fmt.Sprintf("baseval: %d", t.BaseVal))
	}
	if t.ID != 0 {
		fs = append(fs, fmt.Sprintf("id: %d", t.ID))
	}
	if t.Mid != nil {
		fs = append(fs, "mid: "+r.mid(t.Mid))
	}
	if t.A != nil {
		fs = append(fs, "a: "+r.leaf(t.A))
	}
	if t.Bp != nil {
		fs = append(fs, "bp: "+r.leaf(t.Bp))
	}
	if t.Any != nil {
		fs = append(fs, "any: "+r.iface(t.Any))
	}
	if t.Many != nil {
		var p []string
		for _, v := range t.Many {
			p = append(p, r.iface(v))
		}
		fs = append(fs, "many: ["+strings.Join(p, " ")+"]")
	}
	if t.Kids != nil {
		var p []string
		for _, v := range t.Kids {
			p = append(p, r.leaf(v))
		}
		fs = append(fs, "kids: ["+strings.Join(p, " ")+"]")
	}
	if !t.When.IsZero() {
		r.n++
		g := fmt.Sprintf("gtime%d", r.n)
		r.globals[g] = &zygo.SexpTime{Tm: t.When}
		fs = append(fs, "when: "+g)
	}
	if t.Ratio != 0 {
		fs = append(fs, "ratio: "+fstr(t.Ratio))
	}
	return "(c10top " + r.fields(fs) + ")"
}

// generators ------------------------------------------------------------------

func genLeaf(t *rapid.T) *C10Leaf {
	l := &C10Leaf{}
	if rapid.Bool().Draw(t, "ln") {
		l.N = rapid.OneOf(rapid.Int64Range(-50, 50), rapid.Int64()).Draw(t, "n")
	}
	if rapid.Bool().Draw(t, "ls") {
		l.S = rapid.SampledFrom([]string{"x", "hello world", "é", "q\"uote", "tab\there"}).Draw(t, "s")
	}
	if rapid.Bool().Draw(t, "lf") {
		l.F = rapid.SampledFrom([]float64{0.5, -2.25, 1e10, 3.0, 1e-7}).Draw(t, "f")
	}
	l.B = rapid.Bool().Draw(t, "b")
	return l
}

func genMid(t *rapid.T) *C10Mid {
	m := &C10Mid{}
	if rapid.Bool().Draw(t, "mname") {
		m.Name = rapid.SampledFrom([]string{"m1", "mid name", ""}).Draw(t, "name")
	}
	if rapid.Bool().Draw(t, "mleaf") {
		m.Leaf = genLeaf(t)
	}
	if rapid.Bool().Draw(t, "mval") {
		m.Val = *genLeaf(t)
	}
	if rapid.Bool().Draw(t, "mnums") {
		m.Nums = []int64{}
		for i := 0; i < rapid.IntRange(1, 3).Draw(t, "nn"); i++ {
			m.Nums = append(m.Nums, rapid.Int64Range(-9, 9).Draw(t, "num"))
		}
	}
	if rapid.Bool().Draw(t, "mstrs") {
		m.Strs = []string{}
		for i := 0; i < rapid.IntRange(1, 3).Draw(t, "ns"); i++ {
			m.Strs = append(m.Strs, rapid.SampledFrom([]string{"a", "b c", ""}).Draw(t, "str"))
		}
	}
	if rapid.Bool().Draw(t, "mvals") {
		// elements with different sets of zero fields: what one element leaves unset must not be
		// inherited from its neighbour
		m.Vals = []C10Leaf{}
		for i := 0; i < rapid.IntRange(1, 3).Draw(t, "nv"); i++ {
			m.Vals = append(m.Vals, *genLeaf(t))
		}
	}
	if rapid.Bool().Draw(t, "mraw") {
		m.Raw = []byte(rapid.SampledFrom([]string{"raw", "\x00\x01", "bytes!"}).Draw(t, "raw"))
	}
	if rapid.Bool().Draw(t, "mm") {
		m.M = map[string]string{"k1": "v1"}
		if rapid.Bool().Draw(t, "mm2") {
			m.M["k2"] = "v2"
		}
	}
	if rapid.Bool().Draw(t, "mmf") {
		m.MF = map[string]float64{"x": 1.5}
		if rapid.Bool().Draw(t, "mmf2") {
			m.MF["y"] = 2
		}
	}
	if rapid.Bool().Draw(t, "munt") {
		m.Untagged = rapid.IntRange(1, 9).Draw(t, "unt")
	}
	return m
}

func genTop(t *rapid.T) (*C10Top, bool) {
	top := &C10Top{}
	sharedUsed := false
	if rapid.Bool().Draw(t, "tbase") {
		top.BaseVal = rapid.IntRange(1, 99).Draw(t, "baseval")
	}
	if rapid.Bool().Draw(t, "tid") {
		top.ID = rapid.IntRange(1, 99).Draw(t, "id")
	}
	if rapid.Bool().Draw(t, "tmid") {
		top.Mid = genMid(t)
	}
	if rapid.Bool().Draw(t, "ta") {
		top.A = genLeaf(t)
		if rapid.Bool().Draw(t, "share") {
			top.Bp = top.A // one record referenced twice
			sharedUsed = true
		}
	}
	if top.Bp == nil && rapid.Bool().Draw(t, "tbp") {
		top.Bp = genLeaf(t)
	}
	switch rapid.IntRange(0, 2).Draw(t, "tany") {
	case 1:
		top.Any = genLeaf(t)
	case 2:
		top.Any = genMid(t)
	}
	if rapid.Bool().Draw(t, "tmany") {
		top.Many = []C10Iface{}
		for i := 0; i < rapid.IntRange(1, 3).Draw(t, "nmany"); i++ {
			if rapid.Bool().Draw(t, "manyk") {
				top.Many = append(top.Many, genLeaf(t))
			} else {
				top.Many = append(top.Many, genMid(t))
			}
		}
	}
	if rapid.Bool().Draw(t, "tkids") {
		top.Kids = []*C10Leaf{}
		for i := 0; i < rapid.IntRange(1, 3).Draw(t, "nkids"); i++ {
			top.Kids = append(top.Kids, genLeaf(t))
		}
	}
	if top.A != nil && rapid.IntRange(0, 2).Draw(t, "shareInArrays") == 0 {
		// the record bound to a name is also referenced from slice fields (possibly twice in one
		// slice); with the shuffled field order its first reference is then often an array element
		if rapid.Bool().Draw(t, "shKids") {
			for i := 0; i < rapid.IntRange(1, 2).Draw(t, "shKidsN"); i++ {
				pos := rapid.IntRange(0, len(top.Kids)).Draw(t, "shKidsPos")
				top.Kids = append(top.Kids[:pos:pos], append([]*C10Leaf{top.A}, top.Kids[pos:]...)...)
			}
			sharedUsed = true
		}
		if rapid.Bool().Draw(t, "shMany") {
			for i := 0; i < rapid.IntRange(1, 2).Draw(t, "shManyN"); i++ {
				pos := rapid.IntRange(0, len(top.Many)).Draw(t, "shManyPos")
				top.Many = append(top.Many[:pos:pos], append([]C10Iface{top.A}, top.Many[pos:]...)...)
			}
			sharedUsed = true
		}
	}
	if rapid.Bool().Draw(t, "twhen") {
		top.When = time.Unix(int64(rapid.IntRange(1, 2000000000).Draw(t, "unix")), 0).UTC()
	}
	if rapid.Bool().Draw(t, "tratio") {
		top.Ratio = rapid.SampledFrom([]float64{0.25, 7.0, -1.5}).Draw(t, "ratio")
	}
	return top, sharedUsed
}

// the case ----------------------------------------------------------------------

type c10Case struct {
	Src       string            `json:"src"`     // record source text (the value under test is bound to r)
	Prelude   string            `json:"prelude"` // definitions of shared records
	Raws      map[string][]byte `json:"raws"`
	Times     map[string]int64  `json:"times"`
	Want      string            `json:"want"` // %#v-free rendering of the expected Go value (see c10Show)
	Shared    bool              `json:"shared"`
	ShareBp   bool              `json:"share_bp,omitempty"`
	ShareKids []int             `json:"share_kids,omitempty"` // positions of top.Kids that are the shared record
	ShareMany []int             `json:"share_many,omitempty"`
	Neg       string            `json:"neg"` // "" | description of the planted defect (then an error is required)
}

// c10Show renders a Go value deterministically, following pointers (for comparison and reports)
func c10Show(v interface{}) string {
	var b bytes.Buffer
	c10ShowTo(&b, reflect.ValueOf(v), 0)
	return b.String()
}

func c10ShowTo(b *bytes.Buffer, v reflect.Value, depth int) {
	if depth > 12 {
		b.WriteString("<deep>")
		return
	}
	if !v.IsValid() {
		b.WriteString("nil")
		return
	}
	switch v.Kind() {
	case reflect.Ptr, reflect.Interface:
		if v.IsNil() {
			b.WriteString("nil")
			return
		}
		if v.Kind() == reflect.Interface {
			fmt.Fprintf(b, "<%s>", v.Elem().Type())
		}
		b.WriteString("&")
		c10ShowTo(b, v.Elem(), depth+1)
	case reflect.Struct:
		if tm, ok := v.Interface().(time.Time); ok {
			fmt.Fprintf(b, "time(%d)", tm.Unix())
			return
		}
		b.WriteString(v.Type().Name() + "{")
		first := true
		for i := 0; i < v.NumField(); i++ {
			if v.Type().Field(i).Name == "Vals" && v.Field(i).Len() == 0 {
				// field added after the first regression replays were recorded: shown only when set
				continue
			}
			if !first {
				b.WriteString(" ")
			}
			first = false
			b.WriteString(v.Type().Field(i).Name + ":")
			c10ShowTo(b, v.Field(i), depth+1)
		}
		b.WriteString("}")
	case reflect.Slice:
		if v.IsNil() {
			b.WriteString("nil")
			return
		}
		if v.Type().Elem().Kind() == reflect.Uint8 {
			fmt.Fprintf(b, "bytes(%x)", v.Bytes())
			return
		}
		b.WriteString("[")
		for i := 0; i < v.Len(); i++ {
			if i > 0 {
				b.WriteString(" ")
			}
			c10ShowTo(b, v.Index(i), depth+1)
		}
		b.WriteString("]")
	case reflect.Map:
		if v.IsNil() {
			b.WriteString("nil")
			return
		}
		var ks []string
		for _, k := range v.MapKeys() {
			ks = append(ks, k.String())
		}
		sortStrings(ks)
		b.WriteString("map[")
		for i, k := range ks {
			if i > 0 {
				b.WriteString(" ")
			}
			b.WriteString(k + ":")
			c10ShowTo(b, v.MapIndex(reflect.ValueOf(k)), depth+1)
		}
		b.WriteString("]")
	default:
		fmt.Fprintf(b, "%v", v.Interface())
	}
}

func c10Env(c c10Case) *zygo.Zlisp {
	c10Register()
	env := newEnv(envFull)
	for g, raw := range c.Raws {
		env.AddGlobal(g, &zygo.SexpRaw{Val: raw})
	}
	for g, unix := range c.Times {
		env.AddGlobal(g, &zygo.SexpTime{Tm: time.Unix(unix, 0).UTC()})
	}
	return env
}

func checkToGo(c c10Case) *ev.Failure {
	env := c10Env(c)
	defer env.Close()
	mk := func(sig, msg string, exp, obs any) *ev.Failure {
		return &ev.Failure{Sig: sig, Msg: msg + "\nrecord: " + c.Prelude + " " + c.Src, Expected: exp, Observed: obs}
	}
	r := evalString(env, c.Prelude+"\n(def r "+c.Src+")\n", 100000)
	if r.Panic != "" {
		return mk("construct-panic", "building the record panics", "", r.Panic)
	}
	if r.Err != nil {
		if c.Neg != "" {
			return nil // rejected at construction: an error is what we want
		}
		return mk("construct-fails", "building the record fails", "a record", firstLine(r.Err.Error()))
	}
	r2 := evalString(env, "(togo r)\n", 100000)
	if r2.Panic != "" {
		return mk("togo-panic:"+c.Neg, "(togo r) panics out of the library", "value or error", r2.Panic)
	}
	if c.Neg != "" {
		if r2.Err == nil {
			return mk("silently-accepted:"+c.Neg, "(togo r) succeeds although the record has "+c.Neg, "an error", "success")
		}
		return nil
	}
	if r2.Err != nil {
		return mk("togo-fails:"+c10ErrClass(r2.Err.Error()), "(togo r) fails", c.Want, firstLine(r2.Err.Error()))
	}
	hv := evalString(env, "r\n", 1000)
	h, ok := hv.Val.(*zygo.SexpHash)
	if !ok || h.GoShadowStruct == nil {
		return mk("no-shadow", "after (togo r) the record has no Go struct attached", "*C10Top", fmt.Sprintf("%T", hv.Val))
	}
	got := c10Show(h.GoShadowStruct)
	if got != c.Want {
		return mk("togo-differs:"+c10DiffField(c.Want, got), "the Go struct filled by (togo r) differs from the record", c.Want, got)
	}
	if c.Shared {
		top, ok := h.GoShadowStruct.(*C10Top)
		if ok && (c.ShareBp || len(c.ShareKids)+len(c.ShareMany) == 0) && top.A != top.Bp {
			return mk("shared-record-copied", "a record referenced twice became two Go objects", "top.A == top.Bp", fmt.Sprintf("%p != %p", top.A, top.Bp))
		}
		if ok {
			for _, i := range c.ShareKids {
				if i >= len(top.Kids) || top.Kids[i] != top.A {
					return mk("shared-record-copied-in-slice", "a record referenced from a field and from a slice element became two Go objects", fmt.Sprintf("top.Kids[%d] == top.A", i), fmt.Sprintf("%p", top.A))
				}
			}
			for _, i := range c.ShareMany {
				if i >= len(top.Many) {
					return mk("shared-record-copied-in-slice", "slice of interfaces too short", fmt.Sprintf("top.Many[%d] == top.A", i), len(top.Many))
				}
				if l, isLeaf := top.Many[i].(*C10Leaf); !isLeaf || l != top.A {
					return mk("shared-record-copied-in-slice", "a record referenced from a field and from an interface slice element became two Go objects", fmt.Sprintf("top.Many[%d] == top.A", i), fmt.Sprintf("%p vs %v", top.A, top.Many[i]))
				}
			}
		}
	}
	return nil
}

func c10ErrClass(msg string) string {
	for _, k := range []string{"unknown field", "tried to translate", "reflect", "type checking failed", "not registered", "not done here yet"} {
		if strings.Contains(msg, k) {
			return strings.ReplaceAll(k, " ", "-")
		}
	}
	return "other"
}

// c10DiffField names the first field at which two renderings differ
func c10DiffField(a, b string) string {
	n := 0
	for n < len(a) && n < len(b) && a[n] == b[n] {
		n++
	}
	// back up to the field name
	i := strings.LastIndexAny(a[:n], " {")
	j := strings.Index(a[i+1:], ":")
	if i >= 0 && j >= 0 {
		return a[i+1 : i+1+j]
	}
	return "?"
}

var checkToGoR = reg("C10", "togo", checkToGo)

// echo: a registered Go struct handed back by a Go method appears as a record with equal fields
type c10EchoCase struct {
	Kind  string            `json:"kind"` // mid | leaf | self
	Src   string            `json:"src"`
	Raws  map[string][]byte `json:"raws"`
	Times map[string]int64  `json:"times"`
	Want  string            `json:"want"`
}

func checkEcho(c c10EchoCase) *ev.Failure {
	env := c10Env(c10Case{Raws: c.Raws, Times: c.Times})
	defer env.Close()
	mk := func(sig, msg string, exp, obs any) *ev.Failure {
		return &ev.Failure{Sig: sig, Msg: msg + "\nrecord: " + c.Src, Expected: exp, Observed: obs}
	}
	var script string
	switch c.Kind {
	case "mid":
		script = "(def obj (c10top id: 1)) (def r " + c.Src + ") (def back (aget (_method obj EchoMid: r) 0))"
	case "leaf":
		script = "(def obj (c10top id: 1)) (def r " + c.Src + ") (def back (aget (_method obj EchoLeaf: r) 0))"
	default:
		script = "(def r " + c.Src + ") (def back (aget (_method r Self:) 0))"
	}
	r := evalString(env, script+"\n", 200000)
	if r.Panic != "" {
		return mk("echo-panic", "the method call panics out of the library", "", r.Panic)
	}
	if r.Err != nil {
		return mk("echo-fails:"+c10ErrClass(r.Err.Error()), "passing the record to the Go method fails", "a record", firstLine(r.Err.Error()))
	}
	back, ok := r.Val.(*zygo.SexpHash)
	if !ok {
		return mk("echo-not-a-record", "the Go method's struct result is not a record", "record", fmt.Sprintf("%T %s", r.Val, dumpOr(r)))
	}
	wantType := map[string]string{"mid": "c10mid", "leaf": "c10leaf", "self": "c10top"}[c.Kind]
	if back.TypeName != wantType {
		return mk("echo-type-name", "the returned record has another type name", wantType, back.TypeName)
	}
	// convert the returned record to Go again: it must denote the same value
	r2 := evalString(env, "(togo back)\n", 100000)
	if r2.Panic != "" {
		return mk("echo-togo-panic", "(togo back) panics", "", r2.Panic)
	}
	if r2.Err != nil {
		return mk("echo-record-not-convertible:"+c10ErrClass(r2.Err.Error()), "the record that came back from Go cannot be converted again", c.Want, firstLine(r2.Err.Error()))
	}
	hb := evalString(env, "back\n", 1000).Val.(*zygo.SexpHash)
	got := c10Show(hb.GoShadowStruct)
	if got != c.Want {
		return mk("echo-loses:"+c10DiffField(c.Want, got), "the record that came back from Go has lost or changed field values", c.Want, got)
	}
	return nil
}

var checkEchoR = reg("C10", "echo", checkEcho)

func c10Globals(r *c10Render) (map[string][]byte, map[string]int64) {
	raws, times := map[string][]byte{}, map[string]int64{}
	for g, v := range r.globals {
		switch x := v.(type) {
		case *zygo.SexpRaw:
			raws[g] = x.Val
		case *zygo.SexpTime:
			times[g] = x.Tm.Unix()
		}
	}
	return raws, times
}

func c10Labels(top *C10Top) (labels []string, nt bool) {
	add := func(l string) { labels = append(labels, l) }
	if top.BaseVal != 0 {
		add("embedded-struct-field")
	}
	if top.Mid != nil {
		add("nested-struct-pointer")
		if top.Mid.Leaf != nil {
			add("depth-3")
		}
		if top.Mid.Val != (C10Leaf{}) {
			add("non-pointer-struct-field")
		}
		if top.Mid.Nums != nil || top.Mid.Strs != nil {
			add("slice")
		}
		if top.Mid.Raw != nil {
			add("byte-slice")
		}
		if top.Mid.M != nil || top.Mid.MF != nil {
			add("map")
		}
		if top.Mid.Untagged != 0 {
			add("untagged-field")
		}
	}
	if top.Any != nil {
		add("interface-field")
	}
	if top.Many != nil {
		add("slice-of-interface")
	}
	if top.Kids != nil {
		add("slice-of-struct-pointer")
	}
	if !top.When.IsZero() {
		add("time")
	}
	nt = (top.Mid != nil && (top.Mid.Leaf != nil || top.Mid.Nums != nil)) || top.Any != nil || top.Many != nil || top.BaseVal != 0
	return
}

func TestC10(t *testing.T) {
	p := begin(t, "C10")
	r := p.r
	c10Register()
	r.SetRule("togo: a Go value of the harness-registered struct types (C10Top with embedded C10Base, *C10Mid, *C10Leaf, interface-typed field, slice of interfaces, slice of struct pointers, time.Time; C10Mid with non-pointer struct field, []int64, []string, []byte, map[string]string, map[string]float64, json-tagged and untagged names) is generated first and rendered as record source (field order shuffled, zero fields omitted, one leaf record sometimes bound to a name and referenced twice or more: from two pointer fields, from elements of the slice of struct pointers and of the slice of interfaces, also twice in one slice); (togo r) must attach a Go struct that is DeepEqual (compared through a pointer-following rendering) to the generated value, with pointer identity for the shared record. negative: one undeclared field, or one value of the wrong kind (string/bool/array for an int field, int for a string or struct field, ...) planted at a random depth must make the script-level call fail - never succeed silently, never panic out of the library. echo: the record is passed to a Go method that returns it (*C10Mid, *C10Leaf, or the receiver); the result must be a record of the same type that converts to the same Go value. Non-trivial: nesting depth>=2 or interface/embedded/pointer field populated. Distinct by record text.")
	r.Assume("float-for-int fields are converted (truncation) by design and a record given for a string field is stored as text by design: neither is used as a negative case", "types are registered under a single name each (double registration is C20's subject)")

	p.rapidSub("togo", ev.Scale(3000, 500000), func(t *rapid.T) {
		top, shared := genTop(t)
		rd := &c10Render{globals: map[string]zygo.Sexp{}, shuffle: rapid.Uint64Min(1).Draw(t, "shuffle"), shared: map[*C10Leaf]string{}}
		c := c10Case{Shared: shared}
		if shared {
			tmp := &c10Render{globals: rd.globals, shuffle: rd.shuffle}
			c.Prelude = "(def sharedLeaf " + tmp.leaf(top.A) + ")"
			rd.shared[top.A] = "sharedLeaf"
			c.ShareBp = top.Bp == top.A
			for i, k := range top.Kids {
				if k == top.A {
					c.ShareKids = append(c.ShareKids, i)
				}
			}
			for i, k := range top.Many {
				if l, ok := k.(*C10Leaf); ok && l == top.A {
					c.ShareMany = append(c.ShareMany, i)
				}
			}
		}
		c.Src = rd.top(top)
		c.Raws, c.Times = c10Globals(rd)
		c.Want = c10Show(top)
		labels, nt := c10Labels(top)
		if shared {
			labels = append(labels, "shared-record")
			if len(c.ShareKids)+len(c.ShareMany) > 0 {
				labels = append(labels, "shared-record-in-slice")
			}
			if len(c.ShareKids) > 1 || len(c.ShareMany) > 1 {
				labels = append(labels, "shared-record-twice-in-one-slice")
			}
		}
		r.Count("togo", ev.Hash64(c.Src, c.Prelude), nt, labels...)
		if nt {
			r.Sample("togo", c.Prelude+" "+c.Src)
		}
		p.report(t, "togo", c, checkToGo(c))
	})

	p.rapidSub("negative", ev.Scale(1500, 200000), func(t *rapid.T) {
		top, _ := genTop(t)
		rd := &c10Render{globals: map[string]zygo.Sexp{}, shuffle: rapid.Uint64Min(1).Draw(t, "shuffle"), shared: map[*C10Leaf]string{}}
		src := rd.top(top)
		// plant one defect: into a random record opening "(c10xxx "
		var opens []int
		for i := 0; i+4 < len(src); i++ {
			if strings.HasPrefix(src[i:], "(c10") {
				opens = append(opens, i)
			}
		}
		at := opens[rapid.IntRange(0, len(opens)-1).Draw(t, "where")]
		end := at + strings.Index(src[at:], " ")
		if end < at {
			end = at + strings.Index(src[at:], ")")
		}
		typ := src[at+1 : end]
		var bad, what string
		switch typ {
		case "c10leaf":
			bad, what = rapid.SampledFrom([][2]string{{`zzz: 1`, "an undeclared field"}, {`n: "str"`, "a string for an int field"}, {`n: true`, "a bool for an int field"}, {`n: [1 2]`, "an array for an int field"}, {`s: 5`, "an int for a string field"}, {`b: 1`, "an int for a bool field"}, {`f: "x"`, "a string for a float field"}}).Draw(t, "bad")[0], ""
		case "c10mid":
			bad = rapid.SampledFrom([]string{`nosuch: 1`, `leaf: 5`, `nums: 3`, `nums: ["a"]`, `name: 7`, `leaf: (c10mid name: "x")`, `m: 4`, `Untagged: "s"`}).Draw(t, "badm")
		default:
			bad = rapid.SampledFrom([]string{`undeclared: 1`, `id: "one"`, `mid: 3`, `mid: (c10leaf n: 1)`, `kids: [1 2]`, `a: "leaf"`, `baseval: [1]`, `many: 5`}).Draw(t, "badt")
		}
		_ = what
		// the planted field must not collide with a field already present in that record
		fname := bad[:strings.Index(bad, ":")+1]
		depth := 0
		for i := end; i < len(src); i++ {
			if src[i] == '(' || src[i] == '[' {
				depth++
			}
			if src[i] == ')' || src[i] == ']' {
				if depth == 0 {
					break
				}
				depth--
			}
			if depth == 0 && strings.HasPrefix(src[i:], " "+fname) {
				r.Exclude("planted-field-already-present")
				return
			}
		}
		neg := src[:end] + " " + bad + src[end:]
		c := c10Case{Src: neg, Neg: "a planted defect (" + bad + " in " + typ + ")"}
		c.Raws, c.Times = c10Globals(rd)
		kind := "wrong-kind"
		if strings.HasPrefix(bad, "zzz") || strings.HasPrefix(bad, "nosuch") || strings.HasPrefix(bad, "undeclared") {
			kind = "undeclared-field"
		}
		r.Count("negative", ev.Hash64(neg), at > 0, "negative:"+kind, "negative-in:"+typ)
		if at > 0 {
			r.Sample("negative-"+kind, neg)
		}
		p.report(t, "togo", c, checkToGo(c))
	})

	p.rapidSub("echo", ev.Scale(2000, 300000), func(t *rapid.T) {
		rd := &c10Render{globals: map[string]zygo.Sexp{}, shuffle: rapid.Uint64Min(1).Draw(t, "shuffle"), shared: map[*C10Leaf]string{}}
		var c c10EchoCase
		var labels []string
		switch rapid.IntRange(0, 2).Draw(t, "ekind") {
		case 0:
			m := genMid(t)
			c = c10EchoCase{Kind: "mid", Src: rd.mid(m), Want: c10Show(m)}
			labels = append(labels, "echo:mid")
		case 1:
			l := genLeaf(t)
			c = c10EchoCase{Kind: "leaf", Src: rd.leaf(l), Want: c10Show(l)}
			labels = append(labels, "echo:leaf")
		default:
			top, _ := genTop(t)
			c = c10EchoCase{Kind: "self", Src: rd.top(top), Want: c10Show(top)}
			labels = append(labels, "echo:self")
		}
		c.Raws, c.Times = c10Globals(rd)
		nt := strings.Count(c.Src, "(c10") >= 2 || strings.Contains(c.Src, "[")
		r.Count("echo", ev.Hash64(c.Kind, c.Src), nt, labels...)
		if nt {
			r.Sample("echo", c.Src)
		}
		p.report(t, "echo", c, checkEcho(c))
	})
	p.done()
}
