package props

import (
	"bytes"
	"encoding/json"
	"fmt"
	"math"
	"math/big"
	"strconv"
	"testing"
	"unicode/utf8"

	"github.com/glycerine/zygomys/v9/zygo"
	"pgregory.net/rapid"

	"verif/harness/ev"
)

// C11 — JSON and msgpack encodings round-trip and are well-formed.
//
// Values are dval trees (see c12_test.go) with K=hash carrying a record type
// name in S ("" = plain hash). Oracles: round trip at script level through
// (unjson (json v)) and (unmsgpack (msgpack v)); encoding/json as the standard
// decoder for well-formedness and denotation.

var c11RecordTypes = []string{"recA", "recB", "recPerson"}

func c11ToSexp(env *zygo.Zlisp, d dval) (zygo.Sexp, error) {
	if d.K != "hash" && d.K != "arr" {
		return d.toSexp(env)
	}
	var kids []zygo.Sexp
	for _, k := range d.Kids {
		x, err := c11ToSexp(env, k)
		if err != nil {
			return nil, err
		}
		kids = append(kids, x)
	}
	if d.K == "arr" {
		return env.NewSexpArray(kids), nil
	}
	var args []zygo.Sexp
	for i := range kids {
		kx, _ := d.Keys[i].toSexp(env)
		args = append(args, kx, kids[i])
	}
	tn := d.S
	if tn == "" {
		tn = "hash"
	}
	return zygo.MakeHash(args, tn, env)
}

// sameEncoded compares a model value with the decoded Sexp: numbers by value,
// record type names and key order at every level; decoded keys are symbols.
func sameEncoded(d dval, x zygo.Sexp) (bool, string) {
	switch d.K {
	case "hash":
		h, ok := x.(*zygo.SexpHash)
		if !ok {
			return false, fmt.Sprintf("expected a hash, got %T", x)
		}
		tn := d.S
		if tn == "" {
			tn = "hash"
		}
		if h.TypeName != tn {
			return false, fmt.Sprintf("record type name %q became %q", tn, h.TypeName)
		}
		if len(h.KeyOrder) != len(d.Keys) {
			return false, fmt.Sprintf("%d keys became %d", len(d.Keys), len(h.KeyOrder))
		}
		for i, k := range h.KeyOrder {
			name := ""
			switch kk := k.(type) {
			case *zygo.SexpSymbol:
				name = kk.Name()
			case *zygo.SexpStr:
				name = kk.S
			}
			if name != d.Keys[i].S {
				return false, fmt.Sprintf("key order changed at %d: want %q got %q", i, d.Keys[i].S, name)
			}
			val, err := h.HashGet(nil, k)
			if err != nil {
				return false, "key listed but not present: " + name
			}
			if ok, why := sameEncoded(d.Kids[i], val); !ok {
				return false, name + ": " + why
			}
		}
		return true, ""
	case "arr":
		a, ok := x.(*zygo.SexpArray)
		if !ok || len(a.Val) != len(d.Kids) {
			return false, fmt.Sprintf("array of %d became %s", len(d.Kids), dump(x))
		}
		for i := range a.Val {
			if ok, why := sameEncoded(d.Kids[i], a.Val[i]); !ok {
				return false, fmt.Sprintf("[%d]: %s", i, why)
			}
		}
		return true, ""
	}
	if !sameData(d, x) {
		return false, fmt.Sprintf("scalar %+v became %s", d, dump(x))
	}
	return true, ""
}

type c11Env struct {
	env  *zygo.Zlisp
	uses int
}

var c11Shared c11Env

func (e *c11Env) get() *zygo.Zlisp {
	if e.env == nil || e.uses > 200 {
		e.drop()
		e.env = newEnv(envFull)
		for _, tn := range c11RecordTypes {
			evalString(e.env, "(defmap "+tn+")\n", 5000)
		}
	}
	e.uses++
	return e.env
}
func (e *c11Env) drop() {
	if e.env != nil {
		e.env.Close()
	}
	e.env, e.uses = nil, 0
}

func c11Sig(prefix string, d dval) string {
	m := map[string]bool{}
	d.classes(m)
	c11Classes(d, m)
	for _, k := range []string{"str-control", "str-astral", "str-bmp", "str-quote-backslash", "string-key", "record-in-array", "nested-record", "float>=1e21", "float<1e-6", "float-integral", "int-big", "nil"} {
		if m[k] {
			return prefix + ":" + k
		}
	}
	return prefix + ":other"
}

func c11Classes(d dval, m map[string]bool) {
	if d.K == "nil" {
		m["nil"] = true
	}
	if d.K == "hash" {
		for _, k := range d.Keys {
			if k.K == "str" {
				m["string-key"] = true
			}
		}
		if d.S != "" {
			m["record"] = true
		}
	}
	for _, k := range d.Kids {
		if d.K == "arr" && k.K == "hash" && k.S != "" {
			m["record-in-array"] = true
		}
		if d.K == "hash" && k.K == "hash" && k.S != "" {
			m["nested-record"] = true
		}
		c11Classes(k, m)
	}
}

// ---------------------------------------------------------------------------
// round trip

type c11Case struct {
	Codec string `json:"codec"` // json | msgpack
	V     dval   `json:"v"`
}

func checkRoundTrip(c c11Case) *ev.Failure {
	env := c11Shared.get()
	v, err := c11ToSexp(env, c.V)
	if err != nil {
		return nil
	}
	env.AddGlobal("vdata", v)
	enc, dec := "json", "unjson"
	if c.Codec == "msgpack" {
		enc, dec = "msgpack", "unmsgpack"
	}
	r := evalString(env, fmt.Sprintf("(%s (%s vdata))\n", dec, enc), 20000)
	if r.Panic != "" {
		c11Shared.drop()
		return &ev.Failure{Sig: c11Sig(c.Codec+"-panic", c.V), Msg: fmt.Sprintf("(%s (%s v)) panics for v=%s", dec, enc, dump(v)), Observed: r.Panic}
	}
	if r.Err != nil {
		c11Shared.drop()
		return &ev.Failure{Sig: c11Sig(c.Codec+"-roundtrip-fails", c.V), Msg: fmt.Sprintf("(%s (%s v)) fails for v=%s", dec, enc, dump(v)), Expected: dump(v), Observed: r.Err.Error()}
	}
	if ok, why := sameEncoded(c.V, r.Val); !ok {
		return &ev.Failure{Sig: c11Sig(c.Codec+"-roundtrip-differs", c.V), Msg: fmt.Sprintf("(%s (%s v)) differs from v: %s", dec, enc, why), Expected: dump(v), Observed: dump(r.Val)}
	}
	return nil
}

var checkRoundTripR = reg("C11", "roundtrip", checkRoundTrip)

// ---------------------------------------------------------------------------
// well-formedness: a standard decoder accepts the text and it denotes the same data

func jsonDenotes(dec *json.Decoder, d dval) (bool, string) {
	tok, err := dec.Token()
	if err != nil {
		return false, "decoder: " + err.Error()
	}
	switch d.K {
	case "hash":
		if dl, ok := tok.(json.Delim); !ok || dl != '{' {
			return false, fmt.Sprintf("expected object, got %v", tok)
		}
		tn := d.S
		if tn == "" {
			tn = "hash"
		}
		i := 0
		sawType := false
		for dec.More() {
			kt, err := dec.Token()
			if err != nil {
				return false, "decoder: " + err.Error()
			}
			name, _ := kt.(string)
			switch name {
			case "Atype":
				var s string
				if err := dec.Decode(&s); err != nil || s != tn {
					return false, fmt.Sprintf("Atype %q want %q (%v)", s, tn, err)
				}
				sawType = true
			case "zKeyOrder":
				var ks []string
				if err := dec.Decode(&ks); err != nil {
					return false, "zKeyOrder: " + err.Error()
				}
				if len(ks) != len(d.Keys) {
					return false, fmt.Sprintf("zKeyOrder has %d names, hash %d keys", len(ks), len(d.Keys))
				}
				for j := range ks {
					if ks[j] != d.Keys[j].S {
						return false, fmt.Sprintf("zKeyOrder[%d]=%q want %q", j, ks[j], d.Keys[j].S)
					}
				}
			default:
				if i >= len(d.Keys) {
					return false, "extra member " + name
				}
				if name != d.Keys[i].S {
					return false, fmt.Sprintf("member %d is %q want %q", i, name, d.Keys[i].S)
				}
				if ok, why := jsonDenotes(dec, d.Kids[i]); !ok {
					return false, name + ": " + why
				}
				i++
			}
		}
		if _, err := dec.Token(); err != nil {
			return false, "decoder: " + err.Error()
		}
		if i != len(d.Keys) {
			return false, fmt.Sprintf("%d members, want %d", i, len(d.Keys))
		}
		if !sawType {
			return false, "no Atype member"
		}
		return true, ""
	case "arr":
		if dl, ok := tok.(json.Delim); !ok || dl != '[' {
			return false, fmt.Sprintf("expected array, got %v", tok)
		}
		for i := range d.Kids {
			if !dec.More() {
				return false, fmt.Sprintf("array ends at %d", i)
			}
			if ok, why := jsonDenotes(dec, d.Kids[i]); !ok {
				return false, fmt.Sprintf("[%d]: %s", i, why)
			}
		}
		if dec.More() {
			return false, "array too long"
		}
		_, err := dec.Token()
		return err == nil, "array close"
	case "int":
		n, ok := tok.(json.Number)
		if !ok {
			return false, fmt.Sprintf("expected number, got %v", tok)
		}
		v, ok2 := new(big.Int).SetString(n.String(), 10)
		if !ok2 || !v.IsInt64() || v.Int64() != d.I {
			return false, fmt.Sprintf("number %s want %d", n, d.I)
		}
		return true, ""
	case "float":
		n, ok := tok.(json.Number)
		if !ok {
			return false, fmt.Sprintf("expected number, got %v", tok)
		}
		f, err := strconv.ParseFloat(n.String(), 64)
		if err != nil || f != math.Float64frombits(d.F) {
			return false, fmt.Sprintf("number %s want %v", n, math.Float64frombits(d.F))
		}
		return true, ""
	case "str":
		s, ok := tok.(string)
		if !ok || s != d.S {
			return false, fmt.Sprintf("string %q want %q", tok, d.S)
		}
		return true, ""
	case "bool":
		b, ok := tok.(bool)
		if !ok || b != d.B {
			return false, fmt.Sprintf("bool %v want %v", tok, d.B)
		}
		return true, ""
	case "nil":
		if tok != nil {
			return false, fmt.Sprintf("expected null, got %v", tok)
		}
		return true, ""
	}
	return false, "unsupported kind " + d.K
}

func checkWellFormed(d dval) *ev.Failure {
	env := c11Shared.get()
	v, err := c11ToSexp(env, d)
	if err != nil {
		return nil
	}
	env.AddGlobal("vdata", v)
	r := evalString(env, "(json vdata)\n", 20000)
	if r.Panic != "" || r.Err != nil {
		c11Shared.drop()
		return &ev.Failure{Sig: c11Sig("json-fails", d), Msg: "(json v) fails for v=" + dump(v), Observed: fmt.Sprint(r.Err, r.Panic)}
	}
	raw, ok := r.Val.(*zygo.SexpRaw)
	if !ok {
		return &ev.Failure{Sig: "json-type", Msg: "(json v) is not raw bytes", Observed: fmt.Sprintf("%T", r.Val)}
	}
	if !json.Valid(raw.Val) {
		return &ev.Failure{Sig: c11Sig("json-not-wellformed", d), Msg: "(json v) is not well-formed JSON for v=" + dump(v), Observed: string(raw.Val)}
	}
	dec := json.NewDecoder(bytes.NewReader(raw.Val))
	dec.UseNumber()
	if ok, why := jsonDenotes(dec, d); !ok {
		return &ev.Failure{Sig: c11Sig("json-denotes-other-data", d), Msg: "(json v) does not denote v: " + why, Expected: dump(v), Observed: string(raw.Val)}
	}
	return nil
}

var checkWellFormedR = reg("C11", "wellformed", checkWellFormed)

// ---------------------------------------------------------------------------
// generator

var c11Ints = []int64{0, 1, -1, 2, 97, 1 << 31, -(1 << 31), 1 << 53, 1<<53 + 1, -(1 << 53) - 1, math.MaxInt64, math.MinInt64, math.MaxInt64 - 1}

func genJSONString(t *rapid.T) string {
	s := genString(t)
	if !utf8.ValidString(s) {
		return "x"
	}
	return s
}

func genC11Scalar(t *rapid.T) dval {
	switch rapid.IntRange(0, 5).Draw(t, "scalar") {
	case 0:
		return dval{K: "int", I: rapid.OneOf(rapid.SampledFrom(c11Ints), rapid.Int64Range(-1000, 1000), rapid.Int64()).Draw(t, "int")}
	case 1:
		fb := genFloatBits(t)
		f := math.Float64frombits(fb)
		if math.IsNaN(f) || math.IsInf(f, 0) {
			fb = math.Float64bits(0.75)
		}
		return dval{K: "float", F: fb}
	case 2:
		return dval{K: "bool", B: rapid.Bool().Draw(t, "b")}
	case 3:
		return dval{K: "nil"}
	default:
		return dval{K: "str", S: genJSONString(t)}
	}
}

func genC11(t *rapid.T, depth int, stringKeys bool, budget *int) dval {
	if depth >= 5 || *budget <= 0 || (depth > 0 && rapid.IntRange(0, 2).Draw(t, "leaf") == 0) {
		return genC11Scalar(t)
	}
	*budget--
	n := rapid.IntRange(0, 4).Draw(t, "n")
	if rapid.Bool().Draw(t, "arr") {
		d := dval{K: "arr"}
		for i := 0; i < n; i++ {
			d.Kids = append(d.Kids, genC11(t, depth+1, stringKeys, budget))
		}
		return d
	}
	d := dval{K: "hash"}
	if !stringKeys && rapid.Bool().Draw(t, "typed") {
		d.S = rapid.SampledFrom(c11RecordTypes).Draw(t, "rtype")
	}
	used := map[string]bool{}
	for i := 0; i < n; i++ {
		var name string
		for {
			name = rapid.SampledFrom([]string{"a", "b", "name", "k1", "zz", "Age", "x_y", "q"}).Draw(t, "key")
			if stringKeys && rapid.IntRange(0, 3).Draw(t, "oddkey") == 0 {
				name = rapid.SampledFrom([]string{"a b", "k\"q", "é", "tab\there", "😀", "back\\slash", "1"}).Draw(t, "okey")
			}
			if !used[name] {
				used[name] = true
				break
			}
		}
		kk := "sym"
		if stringKeys {
			kk = "str"
		}
		d.Keys = append(d.Keys, dval{K: kk, S: name})
		d.Kids = append(d.Kids, genC11(t, depth+1, stringKeys, budget))
	}
	return d
}

func c11NonTrivial(d dval) (bool, []string) {
	m := map[string]bool{}
	d.classes(m)
	c11Classes(d, m)
	nt := false
	var labels []string
	for k := range m {
		labels = append(labels, k)
		switch k {
		case "str-control", "str-quote-backslash", "str-bmp", "str-astral", "record-in-array", "nested-record", "string-key":
			nt = true
		}
	}
	if m["depth>=3"] && m["record"] {
		nt = true
	}
	return nt, labels
}

func TestC11(t *testing.T) {
	p := begin(t, "C11")
	r := p.r
	r.SetRule("case = nested value (records of declared defmap types, plain hashes with symbol keys, arrays, strings over the full Unicode range incl. quotes, backslashes, control characters, U+2028, astral runes; ints from the boundary grid and random; finite floats of all magnitudes; bools; nil; depth <=5, <=40 nodes) injected as a Go value. roundtrip: (unjson (json v)) and (unmsgpack (msgpack v)) must equal v (numbers by value, same record type names, same key order at every level). wellformed: (json v), also for hashes with string keys, must satisfy encoding/json.Valid and, decoded token by token with json.Number, denote exactly v (members in key order, Atype = type name, zKeyOrder = key names). Non-trivial: a string needing a JSON escape or non-ASCII, a typed record inside an array or record, a string key, or depth>=3 with a record. Distinct by value.")
	r.Assume("NaN and +-Inf have no JSON form and are not generated", "keys named Atype or zKeyOrder are reserved and not generated", "invalid UTF-8 strings are not generated")

	for _, codec := range []string{"json", "msgpack"} {
		codec := codec
		p.rapidSub("roundtrip-"+codec, ev.Scale(3000, 800000), func(t *rapid.T) {
			budget := 40
			d := genC11(t, 0, false, &budget)
			nt, labels := c11NonTrivial(d)
			r.Count("roundtrip-"+codec, ev.Hash64(codec, fmt.Sprintf("%+v", d)), nt, labels...)
			if nt {
				r.Sample("roundtrip-"+codec, d)
			}
			c := c11Case{Codec: codec, V: d}
			p.report(t, "roundtrip", c, checkRoundTrip(c))
		})
	}
	p.rapidSub("wellformed", ev.Scale(4000, 800000), func(t *rapid.T) {
		budget := 40
		d := genC11(t, 0, rapid.Bool().Draw(t, "stringKeys"), &budget)
		nt, labels := c11NonTrivial(d)
		r.Count("wellformed", ev.Hash64("w", fmt.Sprintf("%+v", d)), nt, labels...)
		if nt {
			r.Sample("wellformed", d)
		}
		p.report(t, "wellformed", d, checkWellFormed(d))
	})
	c11Shared.drop()
	p.done()
}
