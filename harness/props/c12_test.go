package props

import (
	"fmt"
	"math"
	"math/big"
	"strconv"
	"strings"
	"testing"
	"unicode"
	"unicode/utf8"

	"github.com/glycerine/zygomys/v9/zygo"
	"pgregory.net/rapid"

	"verif/harness/ev"
)

// C12 — printed data reads back as the same data; literals denote their exact value.

// ---------------------------------------------------------------------------
// data model

type dval struct {
	K    string `json:"k"` // int float bool nil char str sym list arr hash
	I    int64  `json:"i,omitempty"`
	F    uint64 `json:"f,omitempty"` // float bits
	B    bool   `json:"b,omitempty"`
	S    string `json:"s,omitempty"`
	Kids []dval `json:"kids,omitempty"`
	Keys []dval `json:"keys,omitempty"` // hash keys (sym or str), parallel to Kids
}

func (d dval) toSexp(env *zygo.Zlisp) (zygo.Sexp, error) {
	switch d.K {
	case "int":
		return &zygo.SexpInt{Val: d.I}, nil
	case "float":
		return &zygo.SexpFloat{Val: math.Float64frombits(d.F)}, nil
	case "bool":
		return &zygo.SexpBool{Val: d.B}, nil
	case "nil":
		return zygo.SexpNull, nil
	case "char":
		return &zygo.SexpChar{Val: rune(d.I)}, nil
	case "str":
		return &zygo.SexpStr{S: d.S}, nil
	case "sym":
		return env.MakeSymbol(d.S), nil
	case "list":
		var xs []zygo.Sexp
		for _, k := range d.Kids {
			x, err := k.toSexp(env)
			if err != nil {
				return nil, err
			}
			xs = append(xs, x)
		}
		return zygo.MakeList(xs), nil
	case "arr":
		var xs []zygo.Sexp
		for _, k := range d.Kids {
			x, err := k.toSexp(env)
			if err != nil {
				return nil, err
			}
			xs = append(xs, x)
		}
		return env.NewSexpArray(xs), nil
	case "hash":
		var args []zygo.Sexp
		for i, k := range d.Kids {
			kx, _ := d.Keys[i].toSexp(env)
			vx, err := k.toSexp(env)
			if err != nil {
				return nil, err
			}
			args = append(args, kx, vx)
		}
		return zygo.MakeHash(args, "hash", env)
	}
	return nil, fmt.Errorf("bad kind %s", d.K)
}

// sameData compares a model value with a Sexp: numbers by value (an int and a
// float denoting the same number are the same data), nil as nil or the symbol nil.
func sameData(d dval, x zygo.Sexp) bool {
	switch d.K {
	case "int":
		switch v := x.(type) {
		case *zygo.SexpInt:
			return v.Val == d.I
		case *zygo.SexpFloat:
			return v.Val == float64(d.I) && int64(v.Val) == d.I
		}
		return false
	case "float":
		f := math.Float64frombits(d.F)
		switch v := x.(type) {
		case *zygo.SexpFloat:
			if math.IsNaN(f) {
				return math.IsNaN(v.Val)
			}
			return v.Val == f
		case *zygo.SexpInt:
			// printed without fraction or exponent a float reads as an integer literal; by the
			// language's own int/float comparison (conversion to float64) it is the same number
			return float64(v.Val) == f
		}
		return false
	case "bool":
		v, ok := x.(*zygo.SexpBool)
		return ok && v.Val == d.B
	case "nil":
		if x == zygo.SexpNull {
			return true
		}
		if s, ok := x.(*zygo.SexpSymbol); ok {
			return s.Name() == "nil"
		}
		return false
	case "char":
		v, ok := x.(*zygo.SexpChar)
		return ok && v.Val == rune(d.I)
	case "str":
		v, ok := x.(*zygo.SexpStr)
		return ok && v.S == d.S
	case "sym":
		v, ok := x.(*zygo.SexpSymbol)
		return ok && v.Name() == d.S
	case "list":
		if len(d.Kids) == 0 {
			return sameData(dval{K: "nil"}, x)
		}
		items, err := zygo.ListToArray(x)
		if err != nil || len(items) != len(d.Kids) {
			return false
		}
		if _, isPair := x.(*zygo.SexpPair); !isPair {
			return false
		}
		for i := range items {
			if !sameData(d.Kids[i], items[i]) {
				return false
			}
		}
		return true
	case "arr":
		v, ok := x.(*zygo.SexpArray)
		if !ok || len(v.Val) != len(d.Kids) {
			return false
		}
		for i := range v.Val {
			if !sameData(d.Kids[i], v.Val[i]) {
				return false
			}
		}
		return true
	case "hash":
		h, ok := x.(*zygo.SexpHash)
		if !ok || len(h.KeyOrder) != len(d.Kids) {
			return false
		}
		for i, k := range h.KeyOrder {
			// keys: a symbol key may come back as symbol, a string key as string
			if !sameData(d.Keys[i], k) {
				return false
			}
			val, err := h.HashGet(nil, k)
			if err != nil || !sameData(d.Kids[i], val) {
				return false
			}
		}
		return true
	}
	return false
}

func (d dval) depth() int {
	m := 0
	for _, k := range d.Kids {
		if x := k.depth(); x > m {
			m = x
		}
	}
	if d.K == "list" || d.K == "arr" || d.K == "hash" {
		return m + 1
	}
	return m
}

func (d dval) classes(out map[string]bool) {
	switch d.K {
	case "float":
		f := math.Float64frombits(d.F)
		a := math.Abs(f)
		switch {
		case math.IsNaN(f) || math.IsInf(f, 0):
			out["float-nan-inf"] = true
		case a >= 1e21:
			out["float>=1e21"] = true
		case a != 0 && a < 1e-6:
			out["float<1e-6"] = true
		case f == math.Trunc(f):
			out["float-integral"] = true
		default:
			out["float"] = true
		}
	case "str":
		for _, r := range d.S {
			switch {
			case r == '"' || r == '\\':
				out["str-quote-backslash"] = true
			case r < 0x20 || r == 0x7f:
				out["str-control"] = true
			case r > 0x7f && r <= 0xffff:
				out["str-bmp"] = true
			case r > 0xffff:
				out["str-astral"] = true
			}
		}
		if !utf8.ValidString(d.S) {
			out["str-invalid-utf8"] = true
		}
	case "char":
		r := rune(d.I)
		switch {
		case r < 0x20 || r == 0x7f || r == '\'' || r == '\\':
			out["char-escape"] = true
		case r > 0x7f:
			out["char-non-ascii"] = true
		default:
			out["char-ascii"] = true
		}
	case "int":
		if d.I > 1<<53 || d.I < -(1<<53) {
			out["int-big"] = true
		}
	}
	for _, k := range d.Kids {
		k.classes(out)
	}
	for _, k := range d.Keys {
		k.classes(out)
	}
	if d.depth() >= 3 {
		out["depth>=3"] = true
	}
}

func dataNonTrivial(d dval) (bool, []string) {
	m := map[string]bool{}
	d.classes(m)
	nt := false
	var labels []string
	for k := range m {
		labels = append(labels, k)
		switch k {
		case "float>=1e21", "float<1e-6", "str-quote-backslash", "str-control", "str-bmp", "str-astral", "char-escape", "char-non-ascii", "depth>=3", "float-nan-inf":
			nt = true
		}
	}
	return nt, labels
}

// signature: the first offending class, so that distinct root causes are distinct findings
func dataSig(prefix string, d dval) string {
	m := map[string]bool{}
	d.classes(m)
	for _, k := range []string{"float>=1e21", "float<1e-6", "float-nan-inf", "float-integral", "str-control", "str-astral", "str-bmp", "str-quote-backslash", "char-non-ascii", "char-escape", "int-big"} {
		if m[k] {
			return prefix + ":" + k
		}
	}
	return prefix + ":other"
}

// ---------------------------------------------------------------------------
// sub-check readback: (read (str v)) == v

var c12Env *zygo.Zlisp
var c12Uses int

func c12SharedEnv() *zygo.Zlisp {
	if c12Env == nil || c12Uses > 200 {
		c12Drop()
		c12Env = newEnv(envFull)
	}
	c12Uses++
	return c12Env
}
func c12Drop() {
	if c12Env != nil {
		c12Env.Close()
	}
	c12Env, c12Uses = nil, 0
}

func checkReadback(d dval) *ev.Failure {
	env := c12SharedEnv()
	v, err := d.toSexp(env)
	if err != nil {
		return nil
	}
	env.AddGlobal("vdata", v)
	r := evalString(env, "(str vdata)\n", 20000)
	if r.Panic != "" || r.Err != nil {
		c12Drop()
		return &ev.Failure{Sig: dataSig("str-fails", d), Msg: "(str v) fails", Observed: fmt.Sprint(r.Err, r.Panic)}
	}
	printed := r.Val.(*zygo.SexpStr).S
	env.AddGlobal("vtext", &zygo.SexpStr{S: printed + "\n"})
	r2 := evalString(env, "(read vtext)\n", 20000)
	if r2.Panic != "" {
		c12Drop()
		return &ev.Failure{Sig: dataSig("read-panic", d), Msg: fmt.Sprintf("(read %q) panics", printed), Observed: r2.Panic}
	}
	if r2.Err != nil {
		c12Drop()
		return &ev.Failure{Sig: dataSig("read-rejects", d), Msg: fmt.Sprintf("printed form %q is not accepted by the parser", printed), Expected: "the original value", Observed: r2.Err.Error()}
	}
	if !sameData(d, r2.Val) {
		return &ev.Failure{Sig: dataSig("read-differs", d), Msg: fmt.Sprintf("printed form %q reads back as different data", printed), Expected: dump(v), Observed: dump(r2.Val)}
	}
	return nil
}

var checkReadbackR = reg("C12", "readback", checkReadback)

// sub-check evalback: evaluating the printed form of a JSON-like value gives the value
func checkEvalback(d dval) *ev.Failure {
	env := c12SharedEnv()
	v, err := d.toSexp(env)
	if err != nil {
		return nil
	}
	env.AddGlobal("vdata", v)
	r := evalString(env, "(str vdata)\n", 20000)
	if r.Panic != "" || r.Err != nil {
		c12Drop()
		return &ev.Failure{Sig: dataSig("str-fails", d), Msg: "(str v) fails", Observed: fmt.Sprint(r.Err, r.Panic)}
	}
	printed := r.Val.(*zygo.SexpStr).S
	r2 := evalString(env, printed+"\n", 20000)
	if r2.Panic != "" {
		c12Drop()
		return &ev.Failure{Sig: dataSig("eval-panic", d), Msg: fmt.Sprintf("evaluating printed form %q panics", printed), Observed: r2.Panic}
	}
	if r2.Err != nil {
		c12Drop()
		return &ev.Failure{Sig: dataSig("eval-rejects", d), Msg: fmt.Sprintf("printed form %q cannot be sourced again", printed), Expected: "the original value", Observed: r2.Err.Error()}
	}
	if !sameData(d, r2.Val) {
		return &ev.Failure{Sig: dataSig("eval-differs", d), Msg: fmt.Sprintf("printed form %q evaluates to different data", printed), Expected: dump(v), Observed: dump(r2.Val)}
	}
	return nil
}

var checkEvalbackR = reg("C12", "evalback", checkEvalback)

// ---------------------------------------------------------------------------
// sub-check literal: a spelling denotes its exact value

type litCase struct {
	Text string `json:"text"`
	Kind string `json:"kind"` // int uint float char str error
	I    int64  `json:"i,omitempty"`
	U    uint64 `json:"u,omitempty"`
	F    uint64 `json:"f,omitempty"`
	S    string `json:"s,omitempty"`
	Why  string `json:"why,omitempty"` // notation features
}

func checkLiteral(c litCase) *ev.Failure {
	env := c12SharedEnv()
	r := evalString(env, c.Text+"\n", 20000)
	sig := "literal:" + c.Why
	if r.Panic != "" {
		c12Drop()
		return &ev.Failure{Sig: "literal-panic:" + c.Why, Msg: fmt.Sprintf("literal %s panics", c.Text), Observed: r.Panic}
	}
	if c.Kind == "error" {
		if r.Err == nil {
			return &ev.Failure{Sig: sig, Msg: fmt.Sprintf("literal %s is out of range but evaluates to a value", c.Text), Expected: "error", Observed: dump(r.Val)}
		}
		c12Drop()
		return nil
	}
	if r.Err != nil {
		c12Drop()
		return &ev.Failure{Sig: sig, Msg: fmt.Sprintf("literal %s is rejected", c.Text), Expected: fmt.Sprintf("%s %d %d %x %q", c.Kind, c.I, c.U, c.F, c.S), Observed: r.Err.Error()}
	}
	ok := false
	switch c.Kind {
	case "int":
		v, is := r.Val.(*zygo.SexpInt)
		ok = is && v.Val == c.I
	case "uint":
		v, is := r.Val.(*zygo.SexpUint64)
		ok = is && v.Val == c.U
	case "float":
		v, is := r.Val.(*zygo.SexpFloat)
		want := math.Float64frombits(c.F)
		ok = is && (v.Val == want && math.Signbit(v.Val) == math.Signbit(want) || math.IsNaN(want) && math.IsNaN(v.Val))
	case "char":
		v, is := r.Val.(*zygo.SexpChar)
		ok = is && int64(v.Val) == c.I
	case "str":
		v, is := r.Val.(*zygo.SexpStr)
		ok = is && v.S == c.S
	}
	if !ok {
		return &ev.Failure{Sig: sig, Msg: fmt.Sprintf("literal %s does not denote its value", c.Text), Expected: fmt.Sprintf("%s i=%d u=%d f=%v s=%q", c.Kind, c.I, c.U, math.Float64frombits(c.F), c.S), Observed: dump(r.Val)}
	}
	return nil
}

var checkLiteralR = reg("C12", "literal", checkLiteral)

// ---------------------------------------------------------------------------
// generators

var symPool = []string{"a", "foo", "x1", "bar_baz", "q?", "hello.world", "+", "lambda", "Z"}

func genRune(t *rapid.T) rune {
	switch rapid.IntRange(0, 9).Draw(t, "runeClass") {
	case 0, 1, 2:
		return rune(rapid.IntRange(0x20, 0x7e).Draw(t, "ascii"))
	case 3:
		return rapid.SampledFrom([]rune{'"', '\\', '\'', '\n', '\t', '\r', '\a', '#', '`', ';', '(', ')', '{', '}', '[', ']', '~', '%', '^', ':'}).Draw(t, "special")
	case 4:
		return rune(rapid.IntRange(0, 0x1f).Draw(t, "ctl"))
	case 5:
		return rapid.SampledFrom([]rune{0x7f, 0x80, 0x85, 0xa0, 0xad, 0x2028, 0x2029, 0xfeff, 0xfffd, 0x200b}).Draw(t, "odd")
	case 6:
		return rune(rapid.IntRange(0xa1, 0x24f).Draw(t, "latin"))
	case 7:
		return rune(rapid.IntRange(0x4e00, 0x4e80).Draw(t, "cjk"))
	case 8:
		return rune(rapid.IntRange(0x1f600, 0x1f64f).Draw(t, "emoji"))
	default:
		r := rune(rapid.IntRange(0, 0x10ffff).Draw(t, "any"))
		if r >= 0xd800 && r <= 0xdfff {
			r = 'x'
		}
		return r
	}
}

func genString(t *rapid.T) string {
	n := rapid.IntRange(0, 8).Draw(t, "slen")
	var b strings.Builder
	for i := 0; i < n; i++ {
		b.WriteRune(genRune(t))
	}
	return b.String()
}

func genFloatBits(t *rapid.T) uint64 {
	switch rapid.IntRange(0, 7).Draw(t, "fclass") {
	case 0:
		return rapid.Uint64().Draw(t, "fbits")
	case 1:
		e := rapid.IntRange(-30, 40).Draw(t, "p10")
		return math.Float64bits(math.Pow(10, float64(e)))
	case 2:
		return math.Float64bits(float64(rapid.Int64Range(-1000000, 1000000).Draw(t, "fint")))
	case 3:
		// computed by arithmetic
		a := float64(rapid.Int64Range(1, 1000).Draw(t, "fa"))
		b := float64(rapid.Int64Range(1, 1000).Draw(t, "fb"))
		return math.Float64bits(a / b)
	case 4:
		return math.Float64bits(rapid.SampledFrom([]float64{1e21, 1e22, 1.5e300, 9.007199254740993e15, 1e-7, 5e-324, math.MaxFloat64, 123456789012345678901234.0, 0.1, -0.0, 1e20, 1e21 - 131072}).Draw(t, "fspecial"))
	case 5:
		return math.Float64bits(rapid.SampledFrom([]float64{math.Inf(1), math.Inf(-1), math.NaN()}).Draw(t, "fnonfinite"))
	case 6:
		return math.Float64bits(rapid.Float64().Draw(t, "fany"))
	default:
		return math.Float64bits(float64(rapid.Int64().Draw(t, "fi64")) * 4096)
	}
}

func genScalar(t *rapid.T, jsonLike bool) dval {
	max := 7
	if jsonLike {
		max = 4
	}
	switch rapid.IntRange(0, max).Draw(t, "scalar") {
	case 0:
		return dval{K: "int", I: rapid.OneOf(rapid.Int64Range(-100, 100), rapid.Int64(), rapid.SampledFrom([]int64{math.MaxInt64, math.MinInt64, 1 << 53, -(1 << 53) - 1})).Draw(t, "int")}
	case 1:
		fb := genFloatBits(t)
		if jsonLike {
			f := math.Float64frombits(fb)
			if math.IsNaN(f) || math.IsInf(f, 0) {
				fb = math.Float64bits(2.5)
			}
		}
		return dval{K: "float", F: fb}
	case 2:
		return dval{K: "bool", B: rapid.Bool().Draw(t, "bool")}
	case 3:
		return dval{K: "nil"}
	case 4:
		return dval{K: "str", S: genString(t)}
	case 5:
		return dval{K: "char", I: int64(genRune(t))}
	default:
		return dval{K: "sym", S: rapid.SampledFrom(symPool).Draw(t, "sym")}
	}
}

func genData(t *rapid.T, depth int, jsonLike bool) dval {
	if depth >= 5 || rapid.IntRange(0, 2).Draw(t, "leaf") == 0 {
		return genScalar(t, jsonLike)
	}
	n := rapid.IntRange(0, 4).Draw(t, "n")
	kinds := []string{"list", "arr"}
	if jsonLike {
		kinds = []string{"arr", "hash"}
	}
	d := dval{K: rapid.SampledFrom(kinds).Draw(t, "ckind")}
	used := map[string]bool{}
	for i := 0; i < n; i++ {
		d.Kids = append(d.Kids, genData(t, depth+1, jsonLike))
		if d.K == "hash" {
			var k dval
			for {
				if rapid.Bool().Draw(t, "strkey") {
					if rapid.IntRange(0, 3).Draw(t, "hardkey") == 0 {
						// keys needing an escape when printed (quote, backslash, newline, control, non-ASCII)
						k = dval{K: "str", S: genString(t) + fmt.Sprint(i)}
					} else {
						k = dval{K: "str", S: rapid.SampledFrom([]string{"k", "name", "a b", "x", "né"}).Draw(t, "hk") + fmt.Sprint(i)}
					}
				} else {
					k = dval{K: "sym", S: rapid.SampledFrom([]string{"k", "name", "x", "fld"}).Draw(t, "hs") + fmt.Sprint(i)}
				}
				if !used[k.K+k.S] {
					used[k.K+k.S] = true
					break
				}
			}
			d.Keys = append(d.Keys, k)
		}
	}
	return d
}

// literal spellings -----------------------------------------------------------

func withUnderscores(t *rapid.T, digits string) string {
	if len(digits) < 2 || !rapid.Bool().Draw(t, "us") {
		return digits
	}
	var b strings.Builder
	for i, c := range digits {
		if i > 0 && rapid.IntRange(0, 2).Draw(t, "usAt") == 0 {
			b.WriteByte('_')
		}
		b.WriteRune(c)
	}
	return b.String()
}

func genDigits(t *rapid.T, alphabet string, min, max int) string {
	n := rapid.IntRange(min, max).Draw(t, "nd")
	var b strings.Builder
	for i := 0; i < n; i++ {
		b.WriteByte(alphabet[rapid.IntRange(0, len(alphabet)-1).Draw(t, "d")])
	}
	return b.String()
}

func genLiteral(t *rapid.T) litCase {
	switch rapid.IntRange(0, 9).Draw(t, "litKind") {
	case 0, 1: // decimal, optional sign and underscores
		d := genDigits(t, "0123456789", 1, 20)
		why := "decimal"
		if len(d) > 1 && d[0] == '0' {
			// redundant leading zeros: still decimal (octal is spelled 0o..), 010 is ten
			if rapid.Bool().Draw(t, "keepzeros") {
				why += "+leadingzero"
			} else {
				d = strings.TrimLeft(d, "0")
				if d == "" {
					d = "0"
				}
			}
		} else if rapid.IntRange(0, 7).Draw(t, "addzeros") == 0 {
			d = strings.Repeat("0", rapid.IntRange(1, 3).Draw(t, "nz")) + d
			why += "+leadingzero"
		}
		neg := rapid.Bool().Draw(t, "neg")
		text := withUnderscores(t, d)
		if text != d {
			why += "+underscore"
		}
		if neg {
			text = "-" + text
			d = "-" + d
			why += "+sign"
		}
		v, ok := new(big.Int).SetString(d, 10)
		if !ok || !v.IsInt64() {
			return litCase{Text: text, Kind: "error", Why: why + "+overflow"}
		}
		return litCase{Text: text, Kind: "int", I: v.Int64(), Why: why}
	case 2: // hex / octal / binary
		base := rapid.SampledFrom([]int{16, 8, 2}).Draw(t, "base")
		pre, alpha, mx := "0x", "0123456789abcdefABCDEF", 17
		if base == 8 {
			pre, alpha, mx = "0o", "01234567", 23
		}
		if base == 2 {
			pre, alpha, mx = "0b", "01", 65
		}
		d := genDigits(t, alpha, 1, mx)
		v, _ := new(big.Int).SetString(d, base)
		why := map[int]string{16: "hex", 8: "octal", 2: "binary"}[base]
		if !v.IsInt64() {
			return litCase{Text: pre + d, Kind: "error", Why: why + "+overflow"}
		}
		return litCase{Text: pre + d, Kind: "int", I: v.Int64(), Why: why}
	case 3: // uint64 suffix
		form := rapid.IntRange(0, 2).Draw(t, "uform")
		pre, alpha, base, mx := "", "0123456789", 10, 21
		if form == 1 {
			pre, alpha, base, mx = "0x", "0123456789abcdefABCDEF", 16, 17
		}
		if form == 2 {
			pre, alpha, base, mx = "0o", "01234567", 8, 23
		}
		d := genDigits(t, alpha, 1, mx)
		v, _ := new(big.Int).SetString(d, base)
		why := "ULL" + pre
		if !v.IsUint64() {
			return litCase{Text: pre + d + "ULL", Kind: "error", Why: why + "+overflow"}
		}
		return litCase{Text: pre + d + "ULL", Kind: "uint", U: v.Uint64(), Why: why}
	case 4, 5, 6: // fraction / exponent
		ip := genDigits(t, "0123456789", 0, 18)
		fp := genDigits(t, "0123456789", 0, 18)
		why := "fraction"
		form := rapid.IntRange(0, 3).Draw(t, "fform")
		var mant, clean string
		switch {
		case form == 0 && ip != "": // 5.
			mant, clean = ip+".", ip+"."
		case form == 1 && fp != "": // .5
			mant, clean = "."+fp, "."+fp
		default:
			if ip == "" {
				ip = "0"
			}
			if fp == "" {
				fp = "0"
			}
			mant, clean = withUnderscores(t, ip)+"."+withUnderscores(t, fp), ip+"."+fp
			if mant != clean {
				why += "+underscore"
			}
		}
		if rapid.Bool().Draw(t, "exp") {
			if strings.HasPrefix(mant, ".") {
				// the documented grammar has no exponent after a bare .5
			} else {
				ed := genDigits(t, "0123456789", 1, 3)
				es := rapid.SampledFrom([]string{"", "+", "-"}).Draw(t, "esign")
				e := rapid.SampledFrom([]string{"e", "E"}).Draw(t, "e")
				mant += e + es + ed
				clean += e + es + ed
				why += "+exponent"
			}
		}
		if rapid.Bool().Draw(t, "fneg") {
			mant, clean = "-"+mant, "-"+clean
			why += "+sign"
		}
		f, err := strconv.ParseFloat(clean, 64)
		if err != nil {
			return litCase{Text: mant, Kind: "error", Why: why + "+overflow"}
		}
		return litCase{Text: mant, Kind: "float", F: math.Float64bits(f), Why: why}
	case 7: // integer with exponent (1e5) and Inf forms
		if rapid.Bool().Draw(t, "inf") {
			s := rapid.SampledFrom([]string{"Inf", "-Inf", "+Inf", "inf", "-inf", "+inf"}).Draw(t, "infs")
			f := math.Inf(1)
			if s[0] == '-' {
				f = math.Inf(-1)
			}
			return litCase{Text: s, Kind: "float", F: math.Float64bits(f), Why: "inf"}
		}
		ip := strings.TrimLeft(genDigits(t, "0123456789", 1, 10), "0")
		if ip == "" {
			ip = "1"
		}
		ed := genDigits(t, "0123456789", 1, 3)
		es := rapid.SampledFrom([]string{"", "+", "-"}).Draw(t, "esign")
		clean := ip + "e" + es + ed
		f, err := strconv.ParseFloat(clean, 64)
		if err != nil {
			return litCase{Text: clean, Kind: "error", Why: "int-exponent+overflow"}
		}
		return litCase{Text: clean, Kind: "float", F: math.Float64bits(f), Why: "int-exponent"}
	case 8: // char literal
		r := genRune(t)
		if r == utf8.RuneError || !utf8.ValidRune(r) {
			r = 'x'
		}
		esc := map[rune]string{'\n': `\n`, '\r': `\r`, '\a': `\a`, '\t': `\t`, '\\': `\\`, '\'': `\'`}
		if e, ok := esc[r]; ok {
			return litCase{Text: "'" + e + "'", Kind: "char", I: int64(r), Why: "char-escape"}
		}
		if r < 0x20 || r == 0x7f || unicode.IsSpace(r) && r != ' ' {
			r = 'y'
		}
		why := "char-ascii"
		if r > 0x7f {
			why = "char-non-ascii"
		}
		return litCase{Text: "'" + string(r) + "'", Kind: "char", I: int64(r), Why: why}
	default: // string literal with escapes and arbitrary runes
		n := rapid.IntRange(0, 8).Draw(t, "sl")
		var src, val strings.Builder
		why := "string"
		for i := 0; i < n; i++ {
			if rapid.IntRange(0, 3).Draw(t, "esc") == 0 {
				e := rapid.SampledFrom([]string{`\n`, `\r`, `\a`, `\t`, `\\`, `\"`, `\'`, `\#`}).Draw(t, "which")
				src.WriteString(e)
				val.WriteString(map[string]string{`\n`: "\n", `\r`: "\r", `\a`: "\a", `\t`: "\t", `\\`: "\\", `\"`: "\"", `\'`: "'", `\#`: "#"}[e])
				why = "string-escape"
				continue
			}
			r := genRune(t)
			if r == '"' || r == '\\' || !utf8.ValidRune(r) {
				r = 'z'
			}
			src.WriteRune(r)
			val.WriteRune(r)
		}
		return litCase{Text: `"` + src.String() + `"`, Kind: "str", S: val.String(), Why: why}
	}
}

func litNonTrivial(c litCase) bool {
	return strings.Contains(c.Why, "+") || c.Why == "char-non-ascii" || c.Why == "char-escape" || c.Why == "string-escape" || strings.HasPrefix(c.Why, "ULL0")
}

func TestC12(t *testing.T) {
	p := begin(t, "C12")
	r := p.r
	r.SetRule("readback: data value (ints, floats from random bits / powers of ten / computed quotients / >=1e21 / subnormal, bools, nil, chars and strings over the full Unicode range incl. control characters, symbols, lists and arrays nested <=5) injected as a Go value; (read (str v)) must be accepted and denote v (numbers by value, nil as nil). evalback: JSON-like values (numbers, strings, bools, nil, arrays, hashes with symbol or string keys): evaluating (str v) must give v. literal: numeric spellings generated from the documented notations (decimal+underscores, hex, octal, binary, ULL in three bases, fraction, 5. and .5, exponent with sign, signed, Inf) and char/string literals with every documented escape; the value must equal math/big / strconv's reading, out-of-range must be an error. Non-trivial: float >=1e21 or <1e-6 or non-finite, string/char needing an escape or non-ASCII, nesting >=3; literal using >=2 notation features. Distinct by value / spelling.")
	r.Assume("an int and a float denoting the same number count as the same data (100.0 prints as 100)", "nil may read back as the symbol nil (it evaluates to nil)", "underscores are only placed between digits, as in Go")

	p.rapidSub("readback", ev.Scale(6000, 1500000), func(t *rapid.T) {
		d := genData(t, 0, false)
		nt, labels := dataNonTrivial(d)
		r.Count("readback", ev.Hash64(fmt.Sprintf("%+v", d)), nt, labels...)
		if nt {
			for _, l := range labels {
				r.Sample("readback-"+l, d)
			}
		}
		p.report(t, "readback", d, checkReadback(d))
	})
	p.rapidSub("evalback", ev.Scale(4000, 1000000), func(t *rapid.T) {
		d := genData(t, 0, true)
		nt, labels := dataNonTrivial(d)
		r.Count("evalback", ev.Hash64("e", fmt.Sprintf("%+v", d)), nt, labels...)
		if nt {
			r.Sample("evalback", d)
		}
		p.report(t, "evalback", d, checkEvalback(d))
	})
	p.rapidSub("literal", ev.Scale(20000, 3000000), func(t *rapid.T) {
		c := genLiteral(t)
		r.Count("literal", ev.Hash64(c.Text), litNonTrivial(c), "lit:"+c.Why)
		if litNonTrivial(c) {
			r.Sample("literal-"+c.Why, c.Text)
		}
		p.report(t, "literal", c, checkLiteral(c))
	})
	c12Drop()
	p.done()
}
