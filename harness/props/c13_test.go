package props

import (
	"bytes"
	"fmt"
	"os"
	"path/filepath"
	"sort"
	"strings"
	"testing"
	"unicode/utf8"

	"github.com/glycerine/zygomys/v9/zygo"
	"pgregory.net/rapid"

	"verif/harness/ev"
)

// C13 — parsing depends only on the text: not on chunking, not on history.

// ---------------------------------------------------------------------------
// delivering a text in pieces with the REPL protocol

type parseOutcome struct {
	Exprs string // structural dump of the expression list
	Kind  string // "ok" | "more" | "hard:<msg>" | "panic"
}

func classifyErr(err error) string {
	if err == nil {
		return "ok"
	}
	if err == zygo.ErrMoreInputNeeded {
		return "more"
	}
	return "hard"
}

// parseWhole parses text on a fresh parser of env.
func parseWhole(env *zygo.Zlisp, text string) (out parseOutcome) {
	p := env.NewParser()
	defer p.Stop()
	var xs []zygo.Sexp
	var err error
	if pn := safeCall(func() {
		p.ResetAddNewInput(bytes.NewBufferString(text))
		xs, err = p.ParseTokens()
	}); pn != "" {
		return parseOutcome{Kind: "panic", Exprs: pn}
	}
	return parseOutcome{Exprs: dumpList(xs), Kind: classifyErr(err)}
}

// parsePieces delivers the pieces one by one. It returns ok=false when the
// parser did not ask for more input before the last piece (then the cut set is
// not a valid REPL delivery and the case says nothing).
func parsePieces(env *zygo.Zlisp, pieces []string) (out parseOutcome, valid bool, where int) {
	p := env.NewParser()
	defer p.Stop()
	var xs []zygo.Sexp
	var err error
	for i, pc := range pieces {
		if pn := safeCall(func() {
			if i == 0 {
				p.ResetAddNewInput(bytes.NewBufferString(pc))
			} else {
				p.NewInput(bytes.NewBufferString(pc))
			}
			xs, err = p.ParseTokens()
		}); pn != "" {
			return parseOutcome{Kind: "panic", Exprs: pn}, true, i
		}
		if i < len(pieces)-1 && err != zygo.ErrMoreInputNeeded {
			return parseOutcome{Exprs: dumpList(xs), Kind: classifyErr(err)}, false, i
		}
	}
	return parseOutcome{Exprs: dumpList(xs), Kind: classifyErr(err)}, true, len(pieces) - 1
}

func splitAt(text string, cuts []int) []string {
	var pieces []string
	prev := 0
	for _, c := range cuts {
		if c <= prev || c >= len(text) {
			continue
		}
		pieces = append(pieces, text[prev:c])
		prev = c
	}
	pieces = append(pieces, text[prev:])
	return pieces
}

type splitCase struct {
	Text string `json:"text"`
	Cuts []int  `json:"cuts"`
}

// checkSplit: pieces vs whole.
func checkSplit(c splitCase) *ev.Failure {
	f, _ := checkSplitV(c)
	return f
}

func checkSplitV(c splitCase) (*ev.Failure, bool) {
	env := sharedParseEnv()
	whole := parseWhole(env, c.Text)
	if whole.Kind == "panic" {
		return &ev.Failure{Sig: "parse-panic", Msg: fmt.Sprintf("parsing %q panics", c.Text), Observed: whole.Exprs}, true
	}
	pieces := splitAt(c.Text, c.Cuts)
	got, valid, _ := parsePieces(env, pieces)
	if got.Kind == "panic" {
		return &ev.Failure{Sig: "pieces-panic", Msg: fmt.Sprintf("parsing %q in pieces %q panics", c.Text, pieces), Observed: got.Exprs}, true
	}
	if !valid {
		return nil, false
	}
	if got.Kind != whole.Kind || got.Exprs != whole.Exprs {
		return &ev.Failure{Sig: "pieces-differ", Msg: fmt.Sprintf("text %q delivered as %q parses differently from the whole text", c.Text, pieces),
			Expected: whole, Observed: got}, true
	}
	return nil, true
}

var checkSplitR = reg("C13", "split", checkSplit)

var parseEnv *zygo.Zlisp

func sharedParseEnv() *zygo.Zlisp {
	if parseEnv == nil {
		parseEnv = newEnv(envFull)
	}
	return parseEnv
}

// ---------------------------------------------------------------------------
// independent prefix scanner (complete / unfinished)

type scanState struct {
	depth                      int
	inStr, strEsc, inRaw       bool
	inBlock, blockStar, inLine bool
	slash                      bool // saw one '/'
	inChar, charEsc            bool
	charLen                    int
	ambiguous                  bool // ends inside a char literal or other construct the statement does not classify
}

// scanPrefix classifies a prefix of a text produced by genLexText.
func scanPrefix(s string) (unfinished bool, ambiguous bool) {
	var st scanState
	for _, r := range s {
		switch {
		case st.inStr:
			if st.strEsc {
				st.strEsc = false
			} else if r == '\\' {
				st.strEsc = true
			} else if r == '"' {
				st.inStr = false
			}
		case st.inRaw:
			if r == '`' {
				st.inRaw = false
			}
		case st.inBlock:
			if st.blockStar && r == '/' {
				st.inBlock = false
				st.blockStar = false
			} else {
				st.blockStar = r == '*'
			}
		case st.inLine:
			if r == '\n' {
				st.inLine = false
			}
		case st.inChar:
			if st.charEsc {
				st.charEsc = false
			} else if r == '\\' {
				st.charEsc = true
			} else if r == '\'' {
				st.inChar = false
			}
		default:
			if st.slash {
				st.slash = false
				if r == '/' {
					st.inLine = true
					continue
				}
				if r == '*' {
					st.inBlock = true
					continue
				}
			}
			switch r {
			case '"':
				st.inStr = true
			case '`':
				st.inRaw = true
			case '\'':
				st.inChar = true
			case '/':
				st.slash = true
			case '(', '[', '{':
				st.depth++
			case ')', ']', '}':
				st.depth--
			}
		}
	}
	if st.inChar {
		return st.depth > 0, st.depth == 0
	}
	return st.depth > 0 || st.inStr || st.inRaw || st.inBlock, false
}

type moreCase struct {
	Prefix string `json:"prefix"`
}

func checkMoreInput(c moreCase) *ev.Failure {
	unfinished, amb := scanPrefix(c.Prefix)
	if amb {
		return nil
	}
	env := sharedParseEnv()
	got := parseWhole(env, c.Prefix)
	if got.Kind == "panic" {
		return &ev.Failure{Sig: "parse-panic", Msg: fmt.Sprintf("parsing prefix %q panics", c.Prefix), Observed: got.Exprs}
	}
	if unfinished && got.Kind != "more" {
		return &ev.Failure{Sig: "no-more-input-request:" + unfinishedKind(c.Prefix), Msg: fmt.Sprintf("prefix %q is unfinished (%s) but the parser does not ask for more input", c.Prefix, unfinishedKind(c.Prefix)),
			Expected: "more", Observed: got}
	}
	if !unfinished && got.Kind == "more" {
		return &ev.Failure{Sig: "spurious-more-input", Msg: fmt.Sprintf("prefix %q is complete but the parser asks for more input", c.Prefix), Expected: "ok", Observed: got}
	}
	return nil
}

func unfinishedKind(s string) string {
	var st scanState
	_ = st
	// re-scan to name the reason
	depth := 0
	inStr, esc, inRaw, inBlock, star, inLine, slash, inChar, cesc := false, false, false, false, false, false, false, false, false
	for _, r := range s {
		switch {
		case inStr:
			if esc {
				esc = false
			} else if r == '\\' {
				esc = true
			} else if r == '"' {
				inStr = false
			}
		case inRaw:
			if r == '`' {
				inRaw = false
			}
		case inBlock:
			if star && r == '/' {
				inBlock, star = false, false
			} else {
				star = r == '*'
			}
		case inLine:
			if r == '\n' {
				inLine = false
			}
		case inChar:
			if cesc {
				cesc = false
			} else if r == '\\' {
				cesc = true
			} else if r == '\'' {
				inChar = false
			}
		default:
			if slash {
				slash = false
				if r == '/' {
					inLine = true
					continue
				}
				if r == '*' {
					inBlock = true
					continue
				}
			}
			switch r {
			case '"':
				inStr = true
			case '`':
				inRaw = true
			case '\'':
				inChar = true
			case '/':
				slash = true
			case '(', '[', '{':
				depth++
			case ')', ']', '}':
				depth--
			}
		}
	}
	switch {
	case inStr && depth == 0:
		return "top-level-string"
	case inStr:
		return "string-in-bracket"
	case inRaw:
		return "raw-string"
	case inBlock:
		return "block-comment"
	case depth > 0:
		return "open-bracket"
	}
	return "complete"
}

var checkMoreInputR = reg("C13", "moreinput", checkMoreInput)

// ---------------------------------------------------------------------------
// last token

type lastTokCase struct {
	Text string `json:"text"`
}

func stripComments(xs []zygo.Sexp) []zygo.Sexp {
	var r []zygo.Sexp
	for _, x := range xs {
		if _, isC := x.(*zygo.SexpComment); !isC {
			r = append(r, x)
		}
	}
	return r
}

func parseList(env *zygo.Zlisp, text string) ([]zygo.Sexp, error, string) {
	p := env.NewParser()
	defer p.Stop()
	var xs []zygo.Sexp
	var err error
	pn := safeCall(func() {
		p.ResetAddNewInput(bytes.NewBufferString(text))
		xs, err = p.ParseTokens()
	})
	return xs, err, pn
}

func checkLastToken(c lastTokCase) *ev.Failure {
	env := sharedParseEnv()
	a, errA, pa := parseList(env, c.Text)
	b, errB, pb := parseList(env, c.Text+"\n")
	if pa != "" || pb != "" {
		return &ev.Failure{Sig: "parse-panic", Msg: fmt.Sprintf("parsing %q panics", c.Text), Observed: pa + pb}
	}
	da, db := dumpList(stripComments(a)), dumpList(stripComments(b))
	if classifyErr(errA) != classifyErr(errB) || da != db {
		return &ev.Failure{Sig: "last-token-lost:" + lastTokClass(c.Text), Msg: fmt.Sprintf("text %q parses differently with and without a trailing newline", c.Text),
			Expected: fmt.Sprintf("%s %s", classifyErr(errB), db), Observed: fmt.Sprintf("%s %s", classifyErr(errA), da)}
	}
	// and through the evaluator entry point: the parse used by EvalString must see the same text
	return nil
}

func lastTokClass(s string) string {
	if s == "" {
		return "empty"
	}
	r, _ := utf8.DecodeLastRuneInString(s)
	switch {
	case r >= '0' && r <= '9':
		return "digit"
	case r == ':':
		return "colon"
	case strings.ContainsRune("+-*/<>=!&|", r):
		return "operator"
	case r == '~':
		return "tilde"
	case r == ')' || r == ']' || r == '}':
		return "closer"
	case r == '"' || r == '`' || r == '\'':
		return "quote"
	}
	return "atom"
}

var checkLastTokenR = reg("C13", "lasttoken", checkLastToken)

// ---------------------------------------------------------------------------
// history independence

type histStep struct {
	Kind string `json:"kind"` // parse | eval | read | abandon
	Text string `json:"text"`
}

type histCase struct {
	Steps []histStep `json:"steps"`
	Probe string     `json:"probe"`
}

func checkParseHistory(c histCase) *ev.Failure {
	used := newEnv(envFull)
	defer used.Close()
	fresh := newEnv(envFull)
	defer fresh.Close()
	for _, s := range c.Steps {
		safeCall(func() {
			switch s.Kind {
			case "parse", "abandon":
				p := used.VerifParser()
				p.ResetAddNewInput(bytes.NewBufferString(s.Text))
				p.ParseTokens()
			case "eval":
				zygo.VerifSetStepBudget(5000)
				used.EvalString(s.Text)
				zygo.VerifSetStepBudget(0)
				used.Clear()
			case "read":
				zygo.VerifSetStepBudget(5000)
				used.EvalString(fmt.Sprintf("(read %q)\n", s.Text))
				zygo.VerifSetStepBudget(0)
				used.Clear()
			}
		})
	}
	run := func(env *zygo.Zlisp) parseOutcome {
		var xs []zygo.Sexp
		var err error
		p := env.VerifParser()
		if pn := safeCall(func() {
			p.ResetAddNewInput(bytes.NewBufferString(c.Probe))
			xs, err = p.ParseTokens()
		}); pn != "" {
			return parseOutcome{Kind: "panic", Exprs: pn}
		}
		return parseOutcome{Kind: classifyErr(err), Exprs: dumpList(xs)}
	}
	a, b := run(used), run(fresh)
	if a != b {
		last := ""
		if len(c.Steps) > 0 {
			last = c.Steps[len(c.Steps)-1].Kind + ":" + lastTokClass(c.Steps[len(c.Steps)-1].Text)
		}
		return &ev.Failure{Sig: "history-changes-parse:" + last, Msg: fmt.Sprintf("probe %q parses differently after history %+v than on a fresh interpreter", c.Probe, c.Steps),
			Expected: b, Observed: a}
	}
	// same through EvalString's own parse, when the probe evaluates cleanly on the fresh interpreter
	ra := evalString(fresh, "(quote ("+c.Probe+"\n))\n", 5000)
	rb := evalString(used, "(quote ("+c.Probe+"\n))\n", 5000)
	if ra.Panic == "" && rb.Panic == "" && ra.Err == nil {
		if rb.Err != nil || dump(ra.Val) != dump(rb.Val) {
			return &ev.Failure{Sig: "history-changes-eval-parse", Msg: fmt.Sprintf("EvalString reads %q differently after history %+v", c.Probe, c.Steps),
				Expected: dump(ra.Val), Observed: fmt.Sprint(dump(rb.Val), " err=", rb.Err)}
		}
	}
	return nil
}

var checkParseHistoryR = reg("C13", "history", checkParseHistory)

// ---------------------------------------------------------------------------
// text generator (lexical grammar whose structure is known by construction)

func genAtom(t *rapid.T) string {
	switch rapid.IntRange(0, 17).Draw(t, "atomKind") {
	case 0:
		return rapid.SampledFrom([]string{"a", "foo", "x1", "bar_baz", "q?", "h.k", "a.b.c", "p"}).Draw(t, "sym")
	case 1:
		return fmt.Sprint(rapid.IntRange(0, 9999).Draw(t, "int"))
	case 2:
		return fmt.Sprint(-rapid.IntRange(1, 999).Draw(t, "nint"))
	case 3:
		return rapid.SampledFrom([]string{"1.5", "-2.25", "1e5", "2.5e-3", "-1.0e+7", "0.5", "6.02E23", "1_000", "0x1F", "0o17", "0b101", "7ULL"}).Draw(t, "num")
	case 4:
		return `"` + rapid.StringMatching(`[a-z ()\[\]{};/*']{0,8}`).Draw(t, "str") + `"`
	case 5:
		return `"a\"b\\c\n"`
	case 6:
		return "`" + rapid.StringMatching("[a-z \\n()\\[\"]{0,8}").Draw(t, "raw") + "`"
	case 7:
		return rapid.SampledFrom([]string{"'a'", "'('", "')'", "'\\n'", "'\"'", "'['"}).Draw(t, "char")
	case 8:
		return rapid.SampledFrom([]string{":=", "->", "**", "<=", ">=", "==", "!=", "+", "-", "*", "/", "<", ">", "=", "++", "+=", "&&", "||"}).Draw(t, "op")
	case 9:
		return rapid.SampledFrom([]string{"k:", "name:", "x:"}).Draw(t, "key") + " " + fmt.Sprint(rapid.IntRange(0, 9).Draw(t, "kv"))
	case 10:
		return "%" + rapid.SampledFrom([]string{"a", "(b c)", "[1 2]"}).Draw(t, "quoted")
	case 11:
		return rapid.SampledFrom([]string{"true", "false", "nil", "NaN", "Inf", "-Inf"}).Draw(t, "const")
	case 12:
		return "// " + rapid.StringMatching(`[a-z ("\[]{0,8}`).Draw(t, "lc") + "\n"
	case 13:
		// bodies with stars and slashes, closers with a run of stars: "**/" must close the comment
		// (the body never holds the closing pair itself: text after an early close would be live code of no particular shape)
		return "/*" + strings.ReplaceAll(rapid.StringMatching("[a-z (\"\\n\\[*/]{0,8}").Draw(t, "bc"), "*/", "* /") + rapid.SampledFrom([]string{" */", "*/", "**/", "***/", " * */"}).Draw(t, "bcend")
	case 14:
		return "^(a ~b ~@c)"
	case 15:
		return "a.b"
	case 16:
		return "$v"
	default:
		return "#lazy"
	}
}

func genForms(t *rapid.T, depth int, budget *int) string {
	n := rapid.IntRange(0, 4).Draw(t, "nforms")
	var b strings.Builder
	for i := 0; i < n && *budget > 0; i++ {
		*budget--
		if i > 0 || b.Len() > 0 {
			b.WriteString(rapid.SampledFrom([]string{" ", " ", "\n", "  ", "\t", " \n "}).Draw(t, "ws"))
		}
		k := rapid.IntRange(0, 9).Draw(t, "formKind")
		switch {
		case k <= 4 || depth >= 5:
			b.WriteString(genAtom(t))
		case k <= 6:
			b.WriteString("(" + genForms(t, depth+1, budget) + ")")
		case k == 7:
			b.WriteString("[" + genForms(t, depth+1, budget) + "]")
		case k == 8:
			// infix block: only atoms that are harmless inside {}
			b.WriteString("{ x = " + fmt.Sprint(rapid.IntRange(0, 99).Draw(t, "iv")) + " + (f " + genForms(t, depth+1, budget) + ") }")
		default:
			b.WriteString("(let [a 1] " + genForms(t, depth+1, budget) + ")")
		}
	}
	return b.String()
}

func genLexText(t *rapid.T) string {
	budget := rapid.IntRange(3, 40).Draw(t, "budget")
	var b strings.Builder
	n := rapid.IntRange(1, 5).Draw(t, "top")
	for i := 0; i < n; i++ {
		if i > 0 {
			b.WriteString(rapid.SampledFrom([]string{" ", "\n", "\n\n"}).Draw(t, "topws"))
		}
		k := rapid.IntRange(0, 3).Draw(t, "topKind")
		switch k {
		case 0:
			b.WriteString(genAtom(t))
		default:
			b.WriteString("(" + genForms(t, 1, &budget) + ")")
		}
	}
	return b.String()
}

// ---------------------------------------------------------------------------

func corpusTexts() (names []string, texts []string) {
	repo := os.Getenv("VERIF_REPO")
	if repo == "" {
		repo = "/repo"
	}
	files, _ := filepath.Glob(filepath.Join(repo, "tests", "*.zy"))
	more, _ := filepath.Glob(filepath.Join(repo, "tests", "*.g"))
	files = append(files, more...)
	sort.Strings(files)
	for _, f := range files {
		b, err := os.ReadFile(f)
		if err != nil || !utf8.Valid(b) {
			continue
		}
		names = append(names, filepath.Base(f))
		texts = append(texts, string(b))
	}
	return
}

func cutClass(text string, cut int) string {
	before := text[:cut]
	k := unfinishedKind(before)
	// inside a token? (non-space on both sides)
	if cut > 0 && cut < len(text) {
		l, r := text[cut-1], text[cut]
		sp := func(c byte) bool {
			return c == ' ' || c == '\n' || c == '\t' || c == '(' || c == ')' || c == '[' || c == ']' || c == '{' || c == '}'
		}
		if !sp(l) && !sp(r) && k == "open-bracket" {
			return "inside-token"
		}
	}
	return k
}

func TestC13(t *testing.T) {
	p := begin(t, "C13")
	r := p.r
	r.SetRule("four sub-checks. split: a text (script corpus or generated from a lexical grammar: nested ()[]{} , numbers with signs/exponents/underscores, strings with escapes and brackets, raw strings over lines, char literals holding brackets, // and /* */ comments, multi-rune operators := -> ** <=, quote/unquote forms) is delivered in pieces with the REPL protocol (ResetAddNewInput, then NewInput only after ErrMoreInputNeeded) and the final expression list + error kind must equal the whole-text parse; cut sets where the parser did not ask for more are not deliveries and are counted as invalid. moreinput: for every prefix of a generated text the parser asks for more input iff an independent scanner says the prefix is unfinished. lasttoken: parse(T)=parse(T+newline) for complete T. history: after a history of successful/failed/abandoned parses, evals and (read) calls, the interpreter's own parser reads a probe text like a fresh interpreter. Non-trivial: a cut inside a token, string, comment, raw string or multi-rune operator; a prefix ending inside a string/comment/raw string; a text whose last token is not followed by whitespace; a history containing a failed or abandoned parse. Distinct by (text, cuts) / prefix / text / history.")
	r.Assume("cuts are only made where the implementation itself asked for more input (the REPL never feeds more otherwise)", "the prefix scanner is only applied to generated texts whose lexical structure is known by construction", "prefixes ending inside a top-level char literal are not classified by the statement and are skipped")

	names, texts := corpusTexts()
	r.SetExtra("corpus_files", len(texts))

	// (1a) corpus, every single cut (quick: files <= 1500 bytes every cut, larger every 7th; thorough: all) sharded
	idx := 0
	var singles int64
	for fi, text := range texts {
		step := 1
		if !ev.Thorough() && len(text) > 1500 {
			step = 7
		}
		for cut := 1; cut < len(text); cut += step {
			if !utf8.RuneStart(text[cut]) {
				continue
			}
			idx++
			if idx%ev.NShards() != ev.Shard() {
				continue
			}
			c := splitCase{Text: text, Cuts: []int{cut}}
			f, valid := checkSplitV(c)
			if !valid {
				r.Exclude("cut-where-parser-did-not-wait")
				continue
			}
			cls := cutClass(text, cut)
			r.Count("corpus-single-cut", ev.Hash64(names[fi], fmt.Sprint(cut)), cls != "open-bracket", "cut:"+cls, "corpus")
			singles++
			if singles%4000 == 1 {
				r.Sample("corpus-single-cut", map[string]any{"file": names[fi], "cut": cut, "around": text[max(0, cut-12):min(len(text), cut+12)]})
			}
			if f != nil {
				f.Msg = fmt.Sprintf("file %s cut at %d (%q|%q): pieces parse differently from whole", names[fi], cut, text[max(0, cut-15):cut], text[cut:min(len(text), cut+15)])
				c2 := c
				p.reportEnum("split", c2, f)
			}
		}
	}
	r.ExhaustiveSpace("single cuts of corpus files (quick: every cut for files<=1500B, every 7th otherwise)", singles)

	// (1b) corpus pairs of cuts on small files
	var pairs int64
	for fi, text := range texts {
		lim := 160
		if ev.Thorough() {
			lim = 400
		}
		if len(text) > lim {
			continue
		}
		for c1 := 1; c1 < len(text); c1++ {
			for c2 := c1 + 1; c2 < len(text); c2++ {
				if !utf8.RuneStart(text[c1]) || !utf8.RuneStart(text[c2]) {
					continue
				}
				idx++
				if idx%ev.NShards() != ev.Shard() {
					continue
				}
				c := splitCase{Text: text, Cuts: []int{c1, c2}}
				f, valid := checkSplitV(c)
				if !valid {
					r.Exclude("cut-where-parser-did-not-wait")
					continue
				}
				pairs++
				r.Count("corpus-two-cuts", ev.Hash64(names[fi], fmt.Sprint(c1, c2)), cutClass(text, c1) != "open-bracket" || cutClass(text, c2) != "open-bracket", "corpus-two-cuts")
				p.reportEnum("split", c, f)
			}
		}
	}
	r.ExhaustiveSpace("pairs of cuts of small corpus files", pairs)

	// (1c) generated texts, random cut sets (1..6 cuts, incl. one-rune pieces)
	p.rapidSub("split", ev.Scale(4000, 600000), func(t *rapid.T) {
		text := genLexText(t) + "\n"
		// candidate cut positions: where the scanner says unfinished
		var cand []int
		for i := 1; i < len(text); i++ {
			if utf8.RuneStart(text[i]) {
				if u, _ := scanPrefix(text[:i]); u {
					cand = append(cand, i)
				}
			}
		}
		if len(cand) == 0 {
			r.Exclude("no-unfinished-prefix")
			return
		}
		var cuts []int
		if rapid.IntRange(0, 5).Draw(t, "oneRune") == 0 && len(cand) > 3 {
			// a run of one-rune pieces
			s := rapid.IntRange(0, len(cand)-3).Draw(t, "runStart")
			cuts = cand[s:min(len(cand), s+rapid.IntRange(2, 8).Draw(t, "runLen"))]
		} else {
			k := rapid.IntRange(1, 6).Draw(t, "ncuts")
			set := map[int]bool{}
			for i := 0; i < k; i++ {
				set[cand[rapid.IntRange(0, len(cand)-1).Draw(t, "cut")]] = true
			}
			for c := range set {
				cuts = append(cuts, c)
			}
			sort.Ints(cuts)
		}
		c := splitCase{Text: text, Cuts: cuts}
		f, valid := checkSplitV(c)
		if !valid {
			// the scanner said unfinished but the parser did not wait: that is the moreinput sub-check's business
			r.Exclude("cut-where-parser-did-not-wait")
			return
		}
		nt := false
		var labels []string
		for _, cu := range cuts {
			cl := cutClass(text, cu)
			if cl != "open-bracket" {
				nt = true
			}
			labels = append(labels, "cut:"+cl)
		}
		r.Count("generated-cuts", ev.Hash64(text, fmt.Sprint(cuts)), nt, labels...)
		if nt {
			r.Sample("generated-cuts", map[string]any{"pieces": splitAt(text, cuts)})
		}
		p.report(t, "split", c, f)
	})

	// (3) more-input iff unfinished, every prefix of generated texts
	p.rapidSub("moreinput", ev.Scale(1500, 200000), func(t *rapid.T) {
		text := genLexText(t) + "\n"
		for i := 0; i <= len(text); i++ {
			if i < len(text) && !utf8.RuneStart(text[i]) {
				continue
			}
			c := moreCase{Prefix: text[:i]}
			u, amb := scanPrefix(c.Prefix)
			if amb {
				r.Exclude("prefix-ends-in-top-level-char-literal")
				continue
			}
			kind := unfinishedKind(c.Prefix)
			r.Count("moreinput", ev.Hash64(c.Prefix), u && kind != "open-bracket", "prefix:"+kind)
			if u && kind != "open-bracket" {
				r.Sample("moreinput-"+kind, c.Prefix)
			}
			p.report(t, "moreinput", c, checkMoreInput(c))
		}
	})

	// (4) last token
	p.rapidSub("lasttoken", ev.Scale(4000, 400000), func(t *rapid.T) {
		text := strings.TrimRight(genLexText(t), " \n\t")
		if u, amb := scanPrefix(text); u || amb {
			r.Exclude("not-complete")
			return
		}
		// also: a complete text followed by a bare atom
		if rapid.Bool().Draw(t, "appendAtom") {
			text += " " + rapid.SampledFrom([]string{"42", "foo", "x:", "-7", "1.5", "a.b", "+", ":=", "'c'", "true", "->", "/", "~", "<"}).Draw(t, "tail")
		}
		c := lastTokCase{Text: text}
		cls := lastTokClass(text)
		r.Count("lasttoken", ev.Hash64(text), cls != "closer", "last:"+cls)
		if cls != "closer" {
			r.Sample("lasttoken-"+cls, text)
		}
		p.report(t, "lasttoken", c, checkLastToken(c))
	})

	// (2) histories
	okTexts := []string{"(+ 1 2)", "(def x 5)\n", "foo", "[1 2 3]", "{a = 1}", "x", "(a b) c", `"str"`, "12", "1e5", "a-", "(f 'c')", "// c", "/* b */ q"}
	badTexts := []string{")", `"\q"`, "(a b))", "1abc", "'ab'", "~", "{", "#"}
	unfinished := []string{"(a b", `"abc`, "`raw", "/* open", "[1 2", "(a (b", "{x = ", "~(", "^[1 2", "%`abc", "^ /* open", "%(a b", "~@(x", "^{a", "%\"abc", "(a %", "^(a ~", "[~@"}
	probes := []string{"-1", "-1.5 2", "-x", "+3", "(f -2)", "a b", "-7)", "e-3", "1e-3", "(- 1 2)", "-.5", "x:", ":= 2", "b", "\"s\"", "(g 1)", "-Inf", "1 -1"}
	p.rapidSub("history", ev.Scale(3000, 300000), func(t *rapid.T) {
		n := rapid.IntRange(0, 6).Draw(t, "nsteps")
		var c histCase
		nt := false
		var labels []string
		for i := 0; i < n; i++ {
			kind := rapid.SampledFrom([]string{"parse", "parse", "eval", "read", "bad", "abandon"}).Draw(t, "kind")
			var s histStep
			switch kind {
			case "parse", "eval", "read":
				s = histStep{kind, rapid.SampledFrom(okTexts).Draw(t, "text")}
			case "bad":
				s = histStep{rapid.SampledFrom([]string{"parse", "eval", "read"}).Draw(t, "badVia"), rapid.SampledFrom(badTexts).Draw(t, "bad")}
				nt = true
				labels = append(labels, "failed-parse")
			case "abandon":
				utext := rapid.SampledFrom(unfinished).Draw(t, "unf")
				if rapid.Bool().Draw(t, "genUnf") {
					// an unfinished prefix of a generated text
					full := genLexText(t)
					var cuts []int
					for i := 1; i < len(full); i++ {
						if utf8.RuneStart(full[i]) {
							if u, _ := scanPrefix(full[:i]); u {
								cuts = append(cuts, i)
							}
						}
					}
					if len(cuts) > 0 {
						utext = full[:cuts[rapid.IntRange(0, len(cuts)-1).Draw(t, "ucut")]]
					}
				}
				s = histStep{rapid.SampledFrom([]string{"abandon", "eval", "read"}).Draw(t, "abVia"), utext}
				nt = true
				labels = append(labels, "abandoned-parse")
			}
			c.Steps = append(c.Steps, s)
		}
		if rapid.Bool().Draw(t, "genProbe") {
			c.Probe = genLexText(t)
		} else {
			c.Probe = rapid.SampledFrom(probes).Draw(t, "probe")
		}
		c.Probe += rapid.SampledFrom([]string{"", "\n", " "}).Draw(t, "probeEnd")
		r.Count("history", ev.Hash64(fmt.Sprint(c)), nt, labels...)
		if nt {
			r.Sample("history", c)
		}
		p.report(t, "history", c, checkParseHistory(c))
	})
	if parseEnv != nil {
		parseEnv.Close()
		parseEnv = nil
	}
	p.done()
}
