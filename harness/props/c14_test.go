package props

import (
	"bytes"
	"encoding/json"
	"fmt"
	"hash/fnv"
	"strings"
	"testing"

	"github.com/glycerine/zygomys/v9/zygo"
	"pgregory.net/rapid"

	"verif/harness/ev"
)

// C14 — hashes behave as insertion-ordered maps under every operation history.
//
// Oracle: an ordered-map model (slice of live keys in first-insertion order +
// map key->value). After EVERY step every read operation of the script API is
// compared with the model.

// key universe -------------------------------------------------------------

type hkey struct {
	Var   string // global variable the key value is bound to
	Model string // identity in the model (normalised)
	Repr  string // printed representation inside {..}
	JSON  string // JSON member name ("" = not checked)
	mk    func(env *zygo.Zlisp) zygo.Sexp
}

var fnvCollision [2]string

func init() {
	seen := map[uint32]string{}
	for i := 0; ; i++ {
		s := fmt.Sprintf("s%d", i)
		h := fnv.New32()
		h.Write([]byte(s))
		v := h.Sum32()
		if o, ok := seen[v]; ok {
			fnvCollision = [2]string{o, s}
			return
		}
		seen[v] = s
	}
}

func hashUniverse(env *zygo.Zlisp) []hkey {
	symA := env.MakeSymbol("a")
	numA := zygo.VerifSymNumber(symA)
	str := func(s string) func(*zygo.Zlisp) zygo.Sexp {
		return func(*zygo.Zlisp) zygo.Sexp { return &zygo.SexpStr{S: s} }
	}
	in := func(i int64) func(*zygo.Zlisp) zygo.Sexp {
		return func(*zygo.Zlisp) zygo.Sexp { return &zygo.SexpInt{Val: i} }
	}
	return []hkey{
		{"k0", "sym:a", "a", "a", func(e *zygo.Zlisp) zygo.Sexp { return e.MakeSymbol("a") }},
		{"k1", "str:a", `"a"`, "a", str("a")},
		{"k2", "int:1", "1", "1", in(1)},
		{"k3", "sym:b", "b", "b", func(e *zygo.Zlisp) zygo.Sexp { return e.MakeSymbol("b") }},
		{"k4", "str:b", `"b"`, "b", str("b")},
		{"k5", "int:2", "2", "2", in(2)},
		{"k6", "char:a", "'a'", "", func(*zygo.Zlisp) zygo.Sexp { return &zygo.SexpChar{Val: 'a'} }},
		// a one-element array is documented to act as its element: h[1]
		{"k7", "int:1", "1", "1", func(e *zygo.Zlisp) zygo.Sexp { return e.NewSexpArray([]zygo.Sexp{&zygo.SexpInt{Val: 1}}) }},
		{"k8", "arr:1,2", "[1 2]", "", func(e *zygo.Zlisp) zygo.Sexp {
			return e.NewSexpArray([]zygo.Sexp{&zygo.SexpInt{Val: 1}, &zygo.SexpInt{Val: 2}})
		}},
		// an integer whose hash code equals that of symbol a (same bucket, different key)
		{"k9", fmt.Sprintf("int:%d", numA), fmt.Sprint(numA), fmt.Sprint(numA), in(int64(numA))},
		// two strings with equal FNV-32 (same bucket)
		{"k10", "str:" + fnvCollision[0], `"` + fnvCollision[0] + `"`, fnvCollision[0], str(fnvCollision[0])},
		{"k11", "str:" + fnvCollision[1], `"` + fnvCollision[1] + `"`, fnvCollision[1], str(fnvCollision[1])},
	}
}

// history ------------------------------------------------------------------

type hashOp struct {
	Op  string `json:"op"`  // hset | hdel | hget | hgetd | noop
	H   int    `json:"h"`   // which hash (0 or 1)
	Key int    `json:"key"` // index into the universe
}

type hashCase struct {
	Ops []hashOp `json:"ops"`
}

func (c hashCase) String() string {
	var b strings.Builder
	for i, o := range c.Ops {
		if i > 0 {
			b.WriteString(" ")
		}
		fmt.Fprintf(&b, "%s(h%d,k%d)", o.Op, o.H, o.Key)
	}
	return b.String()
}

type omap struct {
	order []string
	vals  map[string]int64
	keyOf map[string]int // model id -> universe index used at first insertion (for Repr)
}

func newOmap() *omap { return &omap{vals: map[string]int64{}, keyOf: map[string]int{}} }

func (m *omap) set(id string, ki int, v int64) {
	if _, ok := m.vals[id]; !ok {
		m.order = append(m.order, id)
		m.keyOf[id] = ki
	}
	m.vals[id] = v
}
func (m *omap) del(id string) {
	if _, ok := m.vals[id]; !ok {
		return
	}
	delete(m.vals, id)
	delete(m.keyOf, id)
	for i, k := range m.order {
		if k == id {
			m.order = append(m.order[:i:i], m.order[i+1:]...)
			break
		}
	}
}

type hashHarness struct {
	env   *zygo.Zlisp
	uni   []hkey
	trace []string
}

func newHashHarness() *hashHarness {
	hh := &hashHarness{}
	hh.env = newEnv(envFull)
	hh.uni = hashUniverse(hh.env)
	for _, k := range hh.uni {
		hh.env.AddGlobal(k.Var, k.mk(hh.env))
	}
	hh.env.AddFunction("trace", func(env *zygo.Zlisp, name string, a []zygo.Sexp) (zygo.Sexp, error) {
		for _, x := range a {
			hh.trace = append(hh.trace, sexpKeyID(x))
		}
		return zygo.SexpNull, nil
	})
	return hh
}

// sexpKeyID maps a key/value Sexp to the model's identity string.
func sexpKeyID(x zygo.Sexp) string {
	switch v := x.(type) {
	case *zygo.SexpSymbol:
		return "sym:" + v.Name()
	case *zygo.SexpStr:
		return "str:" + v.S
	case *zygo.SexpInt:
		return fmt.Sprintf("int:%d", v.Val)
	case *zygo.SexpChar:
		return "char:" + string(v.Val)
	case *zygo.SexpArray:
		if len(v.Val) == 1 {
			return sexpKeyID(v.Val[0])
		}
		var parts []string
		for _, e := range v.Val {
			if i, ok := e.(*zygo.SexpInt); ok {
				parts = append(parts, fmt.Sprint(i.Val))
			} else {
				parts = append(parts, "?")
			}
		}
		return "arr:" + strings.Join(parts, ",")
	case *zygo.SexpSentinel:
		return "nil"
	}
	return fmt.Sprintf("%T", x)
}

func (hh *hashHarness) eval(text string) evalResult {
	return evalString(hh.env, text+"\n", 5000)
}

func stripWS(s string) string {
	return strings.Map(func(r rune) rune {
		if r == ' ' || r == '\n' || r == '\t' {
			return -1
		}
		return r
	}, s)
}

// observe compares every read operation on hash hv with model m.
func (hh *hashHarness) observe(hv string, m *omap, universe []int) (sig, msg string, exp, obs any) {
	bad := func(r evalResult) string {
		if r.Panic != "" {
			return "panic: " + r.Panic
		}
		if r.Err != nil {
			return "error: " + r.Err.Error()
		}
		return ""
	}
	n := int64(len(m.order))
	// len
	r := hh.eval("(len " + hv + ")")
	if b := bad(r); b != "" {
		return "len-fails", "(len h) fails", n, b
	}
	if i, ok := r.Val.(*zygo.SexpInt); !ok || i.Val != n {
		s, _ := printSexp(r.Val)
		return "len-wrong", "(len h) disagrees with the model", n, s
	}
	// keys
	r = hh.eval("(keys " + hv + ")")
	if b := bad(r); b != "" {
		return "keys-fails", "(keys h) fails", m.order, b
	}
	arr, ok := r.Val.(*zygo.SexpArray)
	if !ok {
		return "keys-type", "(keys h) is not an array", m.order, fmt.Sprintf("%T", r.Val)
	}
	var got []string
	for _, k := range arr.Val {
		got = append(got, sexpKeyID(k))
	}
	if strings.Join(got, "|") != strings.Join(m.order, "|") {
		return "keys-wrong", "(keys h) is not the live keys once each in first-insertion order", m.order, got
	}
	// membership + latest value, with default and without
	for _, ki := range universe {
		k := hh.uni[ki]
		want, present := m.vals[k.Model]
		r = hh.eval(fmt.Sprintf("(hget %s %s -1)", hv, k.Var))
		if b := bad(r); b != "" {
			return "hgetd-fails", "(hget h k default) fails for " + k.Model, want, b
		}
		w := int64(-1)
		if present {
			w = want
		}
		if i, ok := r.Val.(*zygo.SexpInt); !ok || i.Val != w {
			s, _ := printSexp(r.Val)
			return "hgetd-wrong", "(hget h k default) disagrees with the model for " + k.Model, w, s
		}
		r = hh.eval(fmt.Sprintf("(hget %s %s)", hv, k.Var))
		if present {
			if b := bad(r); b != "" {
				return "hget-fails", "(hget h k) fails for present key " + k.Model, want, b
			}
			if i, ok := r.Val.(*zygo.SexpInt); !ok || i.Val != want {
				s, _ := printSexp(r.Val)
				return "hget-wrong", "(hget h k) disagrees with the model for " + k.Model, want, s
			}
		} else {
			if r.Panic != "" {
				return "hget-missing-panic", "(hget h k) on a missing key panics", "error or nil", r.Panic
			}
			if r.Err == nil {
				if _, isNil := r.Val.(*zygo.SexpSentinel); !isNil {
					s, _ := printSexp(r.Val)
					return "hget-missing-value", "(hget h k) on a missing key returns a value", "error or nil", s
				}
			}
		}
	}
	// positional access
	for i := int64(0); i <= n; i++ {
		r = hh.eval(fmt.Sprintf("(hpair %s %d)", hv, i))
		if i == n {
			if r.Panic != "" {
				return "hpair-end-panic", "(hpair h len) panics out of the library", "error", r.Panic
			}
			if r.Err == nil {
				s, _ := printSexp(r.Val)
				return "hpair-end-value", "(hpair h len) returns a value for a position past the live keys", "error", s
			}
			break
		}
		id := m.order[i]
		wantS := fmt.Sprintf("%s=%d", id, m.vals[id])
		if b := bad(r); b != "" {
			return "hpair-fails", fmt.Sprintf("(hpair h %d) fails", i), wantS, b
		}
		items, err := zygo.ListToArray(r.Val)
		if err != nil || len(items) != 2 {
			s, _ := printSexp(r.Val)
			return "hpair-shape", "(hpair h i) is not a (key value) list", wantS, s
		}
		gotS := sexpKeyID(items[0]) + "=" + strings.TrimPrefix(sexpKeyID(items[1]), "int:")
		if gotS != wantS {
			return "hpair-wrong", fmt.Sprintf("(hpair h %d) is not the i-th live pair", i), wantS, gotS
		}
	}
	// range iteration (sexp macro)
	hh.trace = nil
	r = hh.eval(fmt.Sprintf("(range rk rv %s (trace rk rv))", hv))
	var wantTrace []string
	for _, id := range m.order {
		wantTrace = append(wantTrace, id, fmt.Sprintf("int:%d", m.vals[id]))
	}
	if b := bad(r); b != "" {
		return "range-fails", "(range k v h ...) fails", wantTrace, b
	}
	if strings.Join(hh.trace, "|") != strings.Join(wantTrace, "|") {
		return "range-wrong", "(range k v h ...) does not visit the live pairs in order", wantTrace, hh.trace
	}
	// range iteration (go-style, infix)
	hh.trace = nil
	r = hh.eval(fmt.Sprintf("{for gk, gv := range %s { (trace gk gv) }}", hv))
	if b := bad(r); b != "" {
		return "gorange-fails", "{for k, v := range h {...}} fails", wantTrace, b
	}
	if strings.Join(hh.trace, "|") != strings.Join(wantTrace, "|") {
		return "gorange-wrong", "{for k, v := range h} does not visit the live pairs in order", wantTrace, hh.trace
	}
	// printed form
	var items []string
	for _, id := range m.order {
		items = append(items, fmt.Sprintf("%s:%d", hh.uni[m.keyOf[id]].Repr, m.vals[id]))
	}
	wantStr := "{" + strings.Join(items, "") + "}"
	r = hh.eval("(str " + hv + ")")
	if b := bad(r); b != "" {
		return "str-fails", "(str h) fails", wantStr, b
	}
	if s, ok := r.Val.(*zygo.SexpStr); !ok || stripWS(s.S) != stripWS(wantStr) {
		o, _ := printSexp(r.Val)
		return "str-wrong", "(str h) does not list exactly the live keys in order", wantStr, o
	}
	// JSON encoding
	r = hh.eval("(json " + hv + ")")
	if b := bad(r); b != "" {
		return "json-fails", "(json h) fails", items, b
	}
	raw, ok := r.Val.(*zygo.SexpRaw)
	if !ok {
		return "json-type", "(json h) is not raw bytes", "raw", fmt.Sprintf("%T", r.Val)
	}
	names, vals, korder, err := jsonMembers(raw.Val)
	if err != nil {
		return "json-invalid", "(json h) is not well-formed JSON: " + err.Error(), items, string(raw.Val)
	}
	var wantVals []string
	var wantNames []string
	for _, id := range m.order {
		wantVals = append(wantVals, fmt.Sprint(m.vals[id]))
		wantNames = append(wantNames, hh.uni[m.keyOf[id]].JSON)
	}
	if strings.Join(vals, "|") != strings.Join(wantVals, "|") {
		return "json-wrong", "(json h) members are not the live values in order", wantVals, string(raw.Val)
	}
	for i := range wantNames {
		if wantNames[i] != "" && names[i] != wantNames[i] {
			return "json-names", "(json h) member names disagree with the keys", wantNames, string(raw.Val)
		}
	}
	if korder >= 0 && korder != len(m.order) {
		return "json-keyorder", "(json h) zKeyOrder does not list exactly the live keys", len(m.order), string(raw.Val)
	}
	// predicates
	r = hh.eval("(empty? " + hv + ")")
	if b := bad(r); b != "" {
		return "empty-fails", "(empty? h) fails", n == 0, b
	}
	if bl, ok := r.Val.(*zygo.SexpBool); !ok || bl.Val != (n == 0) {
		s, _ := printSexp(r.Val)
		return "empty-wrong", "(empty? h) disagrees with the model", n == 0, s
	}
	return "", "", nil, nil
}

// jsonMembers decodes a JSON object keeping member order; returns the member
// names and raw values except the reserved Atype / zKeyOrder, and the length
// of zKeyOrder (-1 if absent).
func jsonMembers(b []byte) (names, vals []string, keyOrderLen int, err error) {
	keyOrderLen = -1
	if !json.Valid(b) {
		return nil, nil, -1, fmt.Errorf("json.Valid is false")
	}
	dec := json.NewDecoder(bytes.NewReader(b))
	dec.UseNumber()
	tok, err := dec.Token()
	if err != nil {
		return nil, nil, -1, err
	}
	if d, ok := tok.(json.Delim); !ok || d != '{' {
		return nil, nil, -1, fmt.Errorf("not an object")
	}
	for dec.More() {
		kt, err := dec.Token()
		if err != nil {
			return nil, nil, -1, err
		}
		name, _ := kt.(string)
		var v json.RawMessage
		if err := dec.Decode(&v); err != nil {
			return nil, nil, -1, err
		}
		switch name {
		case "Atype":
		case "zKeyOrder":
			var arr []any
			if json.Unmarshal(v, &arr) == nil {
				keyOrderLen = len(arr)
			}
		default:
			names = append(names, name)
			vals = append(vals, strings.TrimSpace(string(v)))
		}
	}
	return
}

func hashNonTrivial(c hashCase, uni []hkey) (bool, []string) {
	type st struct{ live, deleted bool }
	state := map[string]*st{}
	nt := false
	var labels []string
	seen := map[string]bool{}
	add := func(l string) {
		if !seen[l] {
			seen[l] = true
			labels = append(labels, l)
		}
	}
	for _, o := range c.Ops {
		id := fmt.Sprintf("%d/%s", o.H, uni[o.Key].Model)
		s := state[id]
		if s == nil {
			s = &st{}
			state[id] = s
		}
		switch o.Op {
		case "hset":
			if s.deleted && !s.live {
				nt = true
				add("delete-then-reinsert")
			}
			if s.live {
				add("update")
			}
			s.live = true
		case "hdel":
			if !s.live {
				if s.deleted {
					nt = true
					add("double-delete")
				} else {
					// delete of a key never present; non-trivial when its bucket is shared with a live key
					add("delete-missing")
					for _, other := range sameBucket(o.Key) {
						if os := state[fmt.Sprintf("%d/%s", o.H, uni[other].Model)]; os != nil && os.live {
							nt = true
							add("delete-missing-in-shared-bucket")
						}
					}
				}
			} else {
				add("delete-live")
			}
			s.live = false
			s.deleted = true
		}
	}
	return nt, labels
}

func sameBucket(k int) []int {
	switch k {
	case 0:
		return []int{9}
	case 9:
		return []int{0}
	case 10:
		return []int{11}
	case 11:
		return []int{10}
	case 2, 7:
		return []int{2, 7}
	}
	return nil
}

func checkHashHistory(c hashCase) *ev.Failure {
	hh := newHashHarness()
	defer hh.env.Close()
	if r := hh.eval("(def h0 (hash)) (def h1 (hash))"); r.Err != nil || r.Panic != "" {
		return &ev.Failure{Sig: "setup", Msg: "cannot create hashes", Observed: fmt.Sprint(r.Err, r.Panic)}
	}
	models := []*omap{newOmap(), newOmap()}
	used := map[int]bool{}
	for _, o := range c.Ops {
		used[o.Key] = true
	}
	var universe []int
	for i := range hh.uni {
		if used[i] {
			universe = append(universe, i)
		}
	}
	// int 97 vs 'a' etc. are never both present (identity across int/char is not fixed by the statement)
	for step, o := range c.Ops {
		k := hh.uni[o.Key]
		hv := fmt.Sprintf("h%d", o.H)
		val := int64(100 + step)
		var r evalResult
		switch o.Op {
		case "hset":
			r = hh.eval(fmt.Sprintf("(hset %s %s %d)", hv, k.Var, val))
			models[o.H].set(k.Model, o.Key, val)
		case "hdel":
			r = hh.eval(fmt.Sprintf("(hdel %s %s)", hv, k.Var))
			models[o.H].del(k.Model)
		case "hget":
			r = hh.eval(fmt.Sprintf("(hget %s %s)", hv, k.Var))
			if _, present := models[o.H].vals[k.Model]; !present {
				r.Err = nil // an error is fine for a missing key
			}
		case "hgetd":
			r = hh.eval(fmt.Sprintf("(hget %s %s 0)", hv, k.Var))
		}
		if r.Panic != "" || r.Err != nil {
			return &ev.Failure{Sig: o.Op + "-op-fails", Msg: fmt.Sprintf("step %d %s(%s,%s) fails; history: %s", step, o.Op, hv, k.Model, c),
				Expected: "success", Observed: fmt.Sprint(r.Err, " ", r.Panic)}
		}
		for hi := 0; hi < 2; hi++ {
			if sig, msg, exp, obs := hh.observe(fmt.Sprintf("h%d", hi), models[hi], universe); sig != "" {
				return &ev.Failure{Sig: sig, Msg: fmt.Sprintf("after step %d of [%s] on h%d: %s", step, c, hi, msg), Expected: exp, Observed: obs}
			}
		}
	}
	return nil
}

var checkHashHistoryR = reg("C14", "history", checkHashHistory)

func hashCaseKey(c hashCase) uint64 { return ev.Hash64(c.String()) }

func TestC14(t *testing.T) {
	p := begin(t, "C14")
	r := p.r
	r.SetRule("case = history of hset/hdel/hget/hget-default operations on two hashes over a 12-key universe (symbols, strings, ints, a char, one- and two-element arrays, an int colliding with a symbol's hash code, two strings with equal FNV-32); after EVERY step len, keys, hget (with and without default) of every used key, hpair i for all i<=len, sexp range, go-style range, str, json and empty? are compared with an ordered-map model on both hashes. Generated (1) exhaustively: all sequences of <=L mutating ops over a 3-key universe incl. a colliding pair, (2) rapid state sequences up to length 40. Non-trivial: delete followed by re-insert, double delete, or delete of a missing key whose bucket holds a live key. Distinct by the operation sequence.")
	r.Assume("a one-element array key [x] is the same key as x (documented h[6] behaviour)", "int n and char with code n are never both used as keys in one history (cross-type key identity is not fixed by the statement)")

	dummy := newHashHarness()
	uni := dummy.uni
	dummy.env.Close()

	// (1) exhaustive: mutating ops over universes of 3 keys
	L := 4
	if ev.Thorough() {
		L = 5
	}
	universes := [][]int{{0, 9, 1}, {10, 11, 2}, {2, 7, 8}}
	var count int64
	idx := 0
	for _, u := range universes {
		var ops []hashOp
		for _, k := range u {
			ops = append(ops, hashOp{"hset", 0, k}, hashOp{"hdel", 0, k})
		}
		// by increasing length, so that the first failure per signature is a shortest one
		for n := 1; n <= L; n++ {
			idxs := make([]int, n)
			for {
				idx++
				if idx%ev.NShards() == ev.Shard() {
					c := hashCase{}
					for _, i := range idxs {
						c.Ops = append(c.Ops, ops[i])
					}
					nt, labels := hashNonTrivial(c, uni)
					f := checkHashHistory(c)
					r.Count("exhaustive", hashCaseKey(c), nt, append(labels, "exhaustive")...)
					if nt {
						r.Sample("exhaustive", c.String())
					}
					count++
					p.reportEnum("history", c, f)
				}
				// next index vector
				j := n - 1
				for j >= 0 {
					idxs[j]++
					if idxs[j] < len(ops) {
						break
					}
					idxs[j] = 0
					j--
				}
				if j < 0 {
					break
				}
			}
		}
	}
	r.ExhaustiveSpace(fmt.Sprintf("all hset/hdel sequences of length<=%d over 3 three-key universes (sharded)", L), count)

	// (2) random histories
	p.rapidSub("history", ev.Scale(1500, 400000), func(t *rapid.T) {
		nk := rapid.IntRange(2, 6).Draw(t, "nkeys")
		pool := rapid.SliceOfNDistinct(rapid.IntRange(0, len(uni)-1), nk, nk, rapid.ID[int]).Draw(t, "pool")
		n := rapid.IntRange(1, 40).Draw(t, "len")
		var c hashCase
		for i := 0; i < n; i++ {
			op := rapid.SampledFrom([]string{"hset", "hset", "hset", "hdel", "hdel", "hget", "hgetd"}).Draw(t, "op")
			c.Ops = append(c.Ops, hashOp{op, rapid.IntRange(0, 1).Draw(t, "h"), rapid.SampledFrom(pool).Draw(t, "key")})
		}
		nt, labels := hashNonTrivial(c, uni)
		r.Count("random", hashCaseKey(c), nt, append(labels, "random")...)
		if nt {
			r.Sample("random", c.String())
		}
		p.report(t, "history", c, checkHashHistory(c))
	})
	p.done()
}
