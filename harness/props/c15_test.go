package props

import (
	"fmt"
	"strings"
	"testing"

	"github.com/glycerine/zygomys/v9/zygo"
	"pgregory.net/rapid"

	"verif/harness/ev"
)

// C15 — macro templates expand by exact substitution.

// template trees ------------------------------------------------------------

type tnode struct {
	K    string  `json:"k"` // list arr hashform int str sym key unq unqx spl splx
	S    string  `json:"s,omitempty"`
	I    int64   `json:"i,omitempty"`
	Kids []tnode `json:"kids,omitempty"`
}

// bindings available to templates evaluated at top level
var tmplBindings = map[string]tnode{
	"a":  {K: "int", I: 3},
	"s":  {K: "str", S: "str"},
	"y":  {K: "sym", S: "foo"},
	"l":  {K: "list", Kids: []tnode{{K: "int", I: 1}, {K: "int", I: 2}}},
	"e":  {K: "list"},
	"nn": {K: "list", Kids: []tnode{{K: "list", Kids: []tnode{{K: "int", I: 1}}}, {K: "int", I: 2}}},
}

const tmplPrelude = `(def a 3) (def s "str") (def y (quote foo)) (def l (list 1 2)) (def e (list)) (def nn (list (list 1) 2)) (def cnt 0)` + "\n"

// compound expressions that may be unquoted: source text and value
type tmplExpr struct {
	src string
	val tnode
}

var tmplExprs = []tmplExpr{
	{"(+ a 1)", tnode{K: "int", I: 4}},
	{"(list a a)", tnode{K: "list", Kids: []tnode{{K: "int", I: 3}, {K: "int", I: 3}}}},
	{"(concat s \"!\")", tnode{K: "str", S: "str!"}},
	{"(cons 9 l)", tnode{K: "list", Kids: []tnode{{K: "int", I: 9}, {K: "int", I: 1}, {K: "int", I: 2}}}},
	{"(rest l)", tnode{K: "list", Kids: []tnode{{K: "int", I: 2}}}},
	{"(list)", tnode{K: "list"}},
	{"(first l)", tnode{K: "int", I: 1}},
}

func (n tnode) render() string {
	switch n.K {
	case "int":
		return fmt.Sprint(n.I)
	case "str":
		return fmt.Sprintf("%q", n.S)
	case "sym":
		return n.S
	case "key":
		return n.S + ":"
	case "unq":
		return "~" + n.S
	case "spl":
		return "~@" + n.S
	case "unqx":
		return "~" + n.S
	case "splx":
		return "~@" + n.S
	}
	var parts []string
	for _, k := range n.Kids {
		parts = append(parts, k.render())
	}
	switch n.K {
	case "arr":
		return "[" + strings.Join(parts, " ") + "]"
	case "hashform":
		return "{" + strings.Join(parts, " ") + "}"
	}
	return "(" + strings.Join(parts, " ") + ")"
}

// subst: my independent reading of a template: every unquote replaced by its value, every
// splice by the elements of its list, everything else literally as written.
func subst(n tnode, env map[string]tnode, exprs map[string]tnode) []tnode {
	switch n.K {
	case "unq":
		return []tnode{env[n.S]}
	case "unqx":
		return []tnode{exprs[n.S]}
	case "spl":
		return env[n.S].Kids
	case "splx":
		return exprs[n.S].Kids
	case "list", "arr":
		out := tnode{K: n.K}
		for _, k := range n.Kids {
			out.Kids = append(out.Kids, subst(k, env, exprs)...)
		}
		return []tnode{out}
	case "hashform":
		// {k: v} inside a template is the form (hash k: v)
		out := tnode{K: "list", Kids: []tnode{{K: "sym", S: "hash"}}}
		for _, k := range n.Kids {
			out.Kids = append(out.Kids, subst(k, env, exprs)...)
		}
		return []tnode{out}
	}
	return []tnode{n}
}

func (n tnode) dumpT() string {
	switch n.K {
	case "int":
		return fmt.Sprintf("i:%d", n.I)
	case "str":
		return fmt.Sprintf("s:%q", n.S)
	case "sym", "key":
		return "y:" + n.S
	case "arr":
		var p []string
		for _, k := range n.Kids {
			p = append(p, k.dumpT())
		}
		return "[" + strings.Join(p, " ") + "]"
	case "list":
		if len(n.Kids) == 0 {
			return "nil"
		}
		var p []string
		for _, k := range n.Kids {
			p = append(p, k.dumpT())
		}
		return "(" + strings.Join(p, " ") + ")"
	}
	return "?" + n.K
}

func exprTable() map[string]tnode {
	m := map[string]tnode{}
	for _, e := range tmplExprs {
		m[e.src] = e.val
	}
	return m
}

// sub-check template: ^template evaluates to subst(template)
type tmplCase struct {
	T tnode `json:"t"`
}

func tmplSig(n tnode) string {
	feats := map[string]bool{}
	var walk func(n tnode, parent string, idx, total int)
	walk = func(n tnode, parent string, idx, total int) {
		switch n.K {
		case "unq", "unqx", "spl", "splx":
			f := n.K + "-in-" + parent
			feats[f] = true
			if n.K == "spl" && n.S == "e" || n.K == "splx" && n.S == "(list)" {
				feats["empty-splice"] = true
			}
		}
		for i, k := range n.Kids {
			walk(k, n.K, i, len(n.Kids))
		}
	}
	walk(n, "top", 0, 1)
	var fs []string
	for f := range feats {
		fs = append(fs, f)
	}
	sortStrings(fs)
	if len(fs) > 3 {
		fs = fs[:3]
	}
	return strings.Join(fs, "+")
}

func checkTemplate(c tmplCase) *ev.Failure {
	env := newEnv(envFull)
	defer env.Close()
	if r := evalString(env, tmplPrelude, 10000); r.Err != nil || r.Panic != "" {
		return &ev.Failure{Sig: "prelude", Msg: "prelude fails", Observed: fmt.Sprint(r.Err, r.Panic)}
	}
	text := "^" + c.T.render()
	res := subst(c.T, tmplBindings, exprTable())
	want := "nil"
	if len(res) == 1 {
		want = res[0].dumpT()
	} else {
		return nil // a bare top-level splice is not a template
	}
	before := env.VerifDepths()
	r := evalString(env, text+"\n", 50000)
	sig := "template:" + tmplSig(c.T)
	if r.Panic != "" {
		return &ev.Failure{Sig: "template-panic", Msg: "evaluating " + text + " panics", Expected: want, Observed: r.Panic}
	}
	if r.Err != nil {
		return &ev.Failure{Sig: sig, Msg: "evaluating " + text + " fails", Expected: want, Observed: firstLine(r.Err.Error())}
	}
	if got := dump(r.Val); got != want {
		return &ev.Failure{Sig: sig, Msg: "template " + text + " does not expand by exact substitution", Expected: want, Observed: got}
	}
	after := env.VerifDepths()
	if before.Data != after.Data || before.Scope != after.Scope || before.Addr != after.Addr || before.Loop != after.Loop {
		return &ev.Failure{Sig: "template-leftover", Msg: "evaluating " + text + " changes the stack depths", Expected: fmt.Sprintf("%+v", before), Observed: fmt.Sprintf("%+v", after)}
	}
	return nil
}

var checkTemplateR = reg("C15", "template", checkTemplate)

// sub-check infn: the template is the value of a function (under cond / let / begin / newScope /
// and), and may unquote or splice a call of that same function: (tf n) must be the substitution
// computed level by level.
type tmplFnCase struct {
	Base  tnode  `json:"base"` // value at n = 0 (template without recursion)
	Step  tnode  `json:"step"` // template at n > 0; unqx/splx with S == tmplRecSrc stand for the recursive call
	Wrap  string `json:"wrap"` // none let begin newScope and letseq
	Depth int    `json:"depth"`
}

const tmplRecSrc = "(tf (- n 1))"

func (c tmplFnCase) text() string {
	body := "(cond (== n 0) ^" + c.Base.render() + " ^" + c.Step.render() + ")"
	switch c.Wrap {
	case "let":
		body = "(let [q n] " + body + ")"
	case "letseq":
		body = "(letseq [q n r q] " + body + ")"
	case "begin":
		body = "(begin (set cnt (+ cnt 1)) " + body + ")"
	case "newScope":
		body = "(newScope (def q n) " + body + ")"
	case "and":
		body = "(and true " + body + ")"
	}
	return "(defn tf [n] " + body + ")"
}

func (c tmplFnCase) want(n int) (tnode, bool) {
	env := map[string]tnode{}
	for k, v := range tmplBindings {
		env[k] = v
	}
	env["n"] = tnode{K: "int", I: int64(n)}
	exprs := exprTable()
	t := c.Base
	if n > 0 {
		prev, ok := c.want(n - 1)
		if !ok {
			return tnode{}, false
		}
		exprs[tmplRecSrc] = prev
		t = c.Step
	}
	res := subst(t, env, exprs)
	if len(res) != 1 {
		return tnode{}, false
	}
	return res[0], true
}

func checkTemplateInFn(c tmplFnCase) *ev.Failure {
	want, ok := c.want(c.Depth)
	if !ok {
		return nil
	}
	env := newEnv(envFull)
	defer env.Close()
	if r := evalString(env, tmplPrelude, 10000); r.Err != nil || r.Panic != "" {
		return &ev.Failure{Sig: "prelude", Msg: "prelude fails", Observed: fmt.Sprint(r.Err, r.Panic)}
	}
	text := c.text() + fmt.Sprintf("\n(tf %d)\n", c.Depth)
	sig := "infn:" + c.Wrap + ":" + tmplSig(c.Step)
	r := evalString(env, text, 200000)
	if r.Panic != "" {
		return &ev.Failure{Sig: "infn-panic", Msg: "evaluating " + text + " panics", Expected: want.dumpT(), Observed: r.Panic}
	}
	if r.Err != nil {
		return &ev.Failure{Sig: sig, Msg: "evaluating " + text + " fails", Expected: want.dumpT(), Observed: firstLine(r.Err.Error())}
	}
	if got := dump(r.Val); got != want.dumpT() {
		return &ev.Failure{Sig: sig, Msg: "template that is the value of a function does not expand by exact substitution: " + text, Expected: want.dumpT(), Observed: got}
	}
	if d := env.VerifDepths(); d.Data != 0 || d.Scope != 1 || d.Addr != 0 || d.Loop != 0 {
		return &ev.Failure{Sig: "infn-leftover", Msg: "evaluating " + text + " leaves the interpreter not at rest", Observed: fmt.Sprintf("%+v", d)}
	}
	return nil
}

var checkTemplateInFnR = reg("C15", "infn", checkTemplateInFn)

// insertRec puts a node at a random position of a random list/array inside n (n itself is a list)
func insertRec(t *rapid.T, n tnode, rec tnode, depth int) tnode {
	var subs []int
	for i, k := range n.Kids {
		if k.K == "list" || k.K == "arr" {
			subs = append(subs, i)
		}
	}
	if len(subs) > 0 && depth < 3 && rapid.IntRange(0, 2).Draw(t, "descend") == 0 {
		i := subs[rapid.IntRange(0, len(subs)-1).Draw(t, "sub")]
		kids := append([]tnode{}, n.Kids...)
		kids[i] = insertRec(t, kids[i], rec, depth+1)
		n.Kids = kids
		return n
	}
	pos := rapid.IntRange(0, len(n.Kids)).Draw(t, "recpos")
	kids := append([]tnode{}, n.Kids[:pos]...)
	kids = append(kids, rec)
	kids = append(kids, n.Kids[pos:]...)
	n.Kids = kids
	return n
}

// sub-check macro: (m args) behaves as the hand-written expansion at the same place
type macroCase struct {
	Params []string `json:"params"` // last may be "& rest"
	Body   tnode    `json:"body"`   // template over the parameters
	Args   []string `json:"args"`   // argument forms (source text)
	Site   string   `json:"site"`   // top | fn | loop | let | macroarg
}

// parseArgForm turns an argument source form into a tnode (for substitution into the body)
func argNode(src string) tnode {
	env := sharedParseEnv()
	xs, _, _ := parseList(env, src+"\n")
	if len(xs) != 1 {
		return tnode{K: "sym", S: "PARSEFAIL"}
	}
	return sexpToTnode(xs[0])
}

func sexpToTnode(x zygo.Sexp) tnode {
	switch v := x.(type) {
	case *zygo.SexpInt:
		return tnode{K: "int", I: v.Val}
	case *zygo.SexpStr:
		return tnode{K: "str", S: v.S}
	case *zygo.SexpSymbol:
		return tnode{K: "sym", S: v.Name()}
	case *zygo.SexpArray:
		n := tnode{K: "arr"}
		for _, e := range v.Val {
			n.Kids = append(n.Kids, sexpToTnode(e))
		}
		return n
	case *zygo.SexpPair:
		n := tnode{K: "list"}
		items, _ := zygo.ListToArray(v)
		for _, e := range items {
			n.Kids = append(n.Kids, sexpToTnode(e))
		}
		return n
	case *zygo.SexpSentinel:
		return tnode{K: "list"}
	}
	return tnode{K: "sym", S: "?"}
}

func (c macroCase) expansion() (tnode, bool) {
	env := map[string]tnode{}
	np := len(c.Params)
	variadic := np > 0 && strings.HasPrefix(c.Params[np-1], "& ")
	for i, p := range c.Params {
		if variadic && i == np-1 {
			rest := tnode{K: "list"}
			for _, a := range c.Args[i:] {
				rest.Kids = append(rest.Kids, argNode(a))
			}
			env[strings.TrimPrefix(p, "& ")] = rest
			continue
		}
		if i >= len(c.Args) {
			return tnode{}, false
		}
		env[p] = argNode(c.Args[i])
	}
	res := subst(c.Body, env, nil)
	if len(res) != 1 {
		return tnode{}, false
	}
	return res[0], true
}

func (c macroCase) wrap(callText string) string {
	switch c.Site {
	case "fn":
		return "((fn [a] (let [b 2] " + callText + ")) 10)"
	case "loop":
		return "(begin (def acc 0) (for [(def i 0) (< i 2) (def i (+ i 1))] (set acc (+ acc " + callText + "))) acc)"
	case "let":
		return "(let [a 20 q 1] " + callText + ")"
	case "defn":
		return "(begin (defn wrapper [a] " + callText + ") (wrapper 30))"
	}
	return callText
}

func checkMacro(c macroCase) *ev.Failure {
	exp, ok := c.expansion()
	if !ok {
		return nil
	}
	defm := "(defmac mm [" + strings.Join(c.Params, " ") + "] ^" + c.Body.render() + ")\n"
	call := "(mm " + strings.Join(c.Args, " ") + ")"
	if len(c.Args) == 0 {
		call = "(mm)"
	}
	hand := exp.render()
	a, b := newSurfInterp(), newSurfInterp()
	defer a.env.Close()
	defer b.env.Close()
	for _, in := range []*surfInterp{a, b} {
		if r := evalString(in.env, tmplPrelude, 10000); r.Err != nil || r.Panic != "" {
			return nil
		}
	}
	sig := "macro:" + c.Site + ":" + tmplSig(c.Body)
	if r := evalString(a.env, defm, 10000); r.Err != nil || r.Panic != "" {
		return &ev.Failure{Sig: sig, Msg: "macro definition fails: " + defm, Observed: fmt.Sprint(r.Err, r.Panic)}
	}
	// (4) expanding leaves the caller untouched: compile a text that only expands
	before := a.env.VerifDepths()
	a.trace = nil
	rexp := evalString(a.env, "(fn [a] "+call+")\n", 50000)
	if rexp.Panic != "" {
		return &ev.Failure{Sig: "macro-expansion-panic", Msg: "expanding " + call + " panics", Observed: rexp.Panic}
	}
	if rexp.Err == nil {
		after := a.env.VerifDepths()
		if before.Data != after.Data || before.Scope != after.Scope || before.Addr != after.Addr || before.Loop != after.Loop {
			return &ev.Failure{Sig: "macro-expansion-leftover", Msg: "expanding " + call + " (inside an un-called fn) changes the caller's stack depths", Expected: fmt.Sprintf("%+v", before), Observed: fmt.Sprintf("%+v", after)}
		}
		if len(a.trace) > 0 {
			return &ev.Failure{Sig: "macro-expansion-effects", Msg: "expanding " + call + " evaluated its arguments", Expected: "no effects", Observed: a.trace}
		}
		if r := evalString(a.env, "cnt\n", 1000); r.Err != nil || dump(r.Val) != "i:0" {
			return &ev.Failure{Sig: "macro-expansion-effects", Msg: "expanding " + call + " changed a global", Expected: "i:0", Observed: fmt.Sprint(dumpOr(r), r.Err)}
		}
	}
	// (3) macexpand gives the expansion
	rm := evalString(a.env, "(macexpand "+call+")\n", 50000)
	if rm.Panic != "" {
		return &ev.Failure{Sig: "macexpand-panic", Msg: "(macexpand " + call + ") panics", Observed: rm.Panic}
	}
	if rm.Err == nil {
		got := dump(rm.Val)
		want := exp.dumpT()
		alt1 := "(y:quote " + want + ")"
		alt2 := ""
		if exp.K == "list" && len(exp.Kids) > 0 {
			alt2 = "(y:quote " + strings.TrimPrefix(want, "(")
		} else {
			alt2 = "(y:quote \\ " + want + ")"
		}
		if got != want && got != alt1 && got != alt2 {
			return &ev.Failure{Sig: sig + ":macexpand", Msg: "(macexpand " + call + ") is not the expansion", Expected: want, Observed: got}
		}
	}
	// (2) the call behaves as the hand-written expansion at the same place
	a.trace, b.trace = nil, nil
	ra := evalString(a.env, c.wrap(call)+"\n", 100000)
	rb := evalString(b.env, c.wrap(hand)+"\n", 100000)
	if ra.Panic != "" {
		return &ev.Failure{Sig: "macro-call-panic", Msg: "calling " + c.wrap(call) + " panics", Observed: ra.Panic}
	}
	if rb.Panic != "" || ra.Budget || rb.Budget {
		return nil
	}
	if (ra.Err != nil) != (rb.Err != nil) {
		return &ev.Failure{Sig: sig, Msg: fmt.Sprintf("%s and the hand-written %s disagree on success\nmacro: %s", c.wrap(call), c.wrap(hand), defm), Expected: fmt.Sprint(rb.Err), Observed: fmt.Sprint(ra.Err)}
	}
	if strings.Join(a.trace, "|") != strings.Join(b.trace, "|") {
		return &ev.Failure{Sig: sig, Msg: fmt.Sprintf("%s and the hand-written %s have different effects\nmacro: %s", c.wrap(call), c.wrap(hand), defm), Expected: b.trace, Observed: a.trace}
	}
	if ra.Err == nil && dump(ra.Val) != dump(rb.Val) {
		return &ev.Failure{Sig: sig, Msg: fmt.Sprintf("%s and the hand-written %s give different values\nmacro: %s", c.wrap(call), c.wrap(hand), defm), Expected: dump(rb.Val), Observed: dump(ra.Val)}
	}
	return nil
}

var checkMacroR = reg("C15", "macro", checkMacro)

// generators ----------------------------------------------------------------

func genTmpl(t *rapid.T, depth int, names []string, allowExpr bool, inList bool) tnode {
	k := rapid.IntRange(0, 13).Draw(t, "tk")
	if depth >= 4 && k >= 9 {
		k = rapid.IntRange(0, 8).Draw(t, "tleaf")
	}
	switch k {
	case 0:
		return tnode{K: "int", I: int64(rapid.IntRange(0, 9).Draw(t, "ti"))}
	case 1:
		return tnode{K: "sym", S: rapid.SampledFrom([]string{"x", "foo", "list", "+", "quote"}).Draw(t, "tsym")}
	case 2:
		return tnode{K: "str", S: rapid.SampledFrom([]string{"", "q", "a b"}).Draw(t, "tstr")}
	case 3, 4:
		return tnode{K: "unq", S: rapid.SampledFrom(names).Draw(t, "un")}
	case 5, 6:
		if inList {
			// splices only make sense inside a list or array; names bound to lists
			var ls []string
			for _, n := range names {
				if n == "n" {
					continue // the level counter of the infn sub-check is an int
				}
				if b, ok := tmplBindings[n]; !ok || b.K == "list" {
					ls = append(ls, n)
				}
			}
			if len(ls) > 0 {
				return tnode{K: "spl", S: rapid.SampledFrom(ls).Draw(t, "sn")}
			}
		}
		return tnode{K: "int", I: 7}
	case 7:
		if allowExpr {
			return tnode{K: "unqx", S: rapid.SampledFrom(tmplExprs).Draw(t, "ux").src}
		}
		return tnode{K: "sym", S: "z"}
	case 8:
		if allowExpr && inList {
			var ls []tmplExpr
			for _, e := range tmplExprs {
				if e.val.K == "list" {
					ls = append(ls, e)
				}
			}
			return tnode{K: "splx", S: rapid.SampledFrom(ls).Draw(t, "sx").src}
		}
		return tnode{K: "int", I: 8}
	case 9, 10, 11:
		n := tnode{K: "list"}
		for i := 0; i < rapid.IntRange(0, 4).Draw(t, "ln"); i++ {
			n.Kids = append(n.Kids, genTmpl(t, depth+1, names, allowExpr, true))
		}
		return n
	case 12:
		n := tnode{K: "arr"}
		for i := 0; i < rapid.IntRange(0, 4).Draw(t, "an"); i++ {
			n.Kids = append(n.Kids, genTmpl(t, depth+1, names, allowExpr, true))
		}
		return n
	default:
		n := tnode{K: "hashform"}
		for i := 0; i < rapid.IntRange(1, 2).Draw(t, "hn"); i++ {
			n.Kids = append(n.Kids, tnode{K: "key", S: fmt.Sprintf("k%d", i)}, genTmpl(t, depth+1, names, allowExpr, false))
		}
		return n
	}
}

func (n tnode) stats() (unq, spl, compound, depth int) {
	switch n.K {
	case "unq":
		unq = 1
	case "spl":
		spl = 1
	case "unqx":
		unq, compound = 1, 1
	case "splx":
		spl, compound = 1, 1
	}
	md := 0
	for _, k := range n.Kids {
		u, s, c, d := k.stats()
		unq += u
		spl += s
		compound += c
		if d > md {
			md = d
		}
	}
	if n.K == "list" || n.K == "arr" || n.K == "hashform" {
		md++
	}
	return unq, spl, compound, md
}

func TestC15(t *testing.T) {
	p := begin(t, "C15")
	r := p.r
	r.SetRule("template: a tree over lists, arrays and {k: v} forms (depth <=4) with ~name, ~(compound expr), ~@name, ~@(compound expr) at arbitrary positions (first, last, adjacent splices, empty splices, splice as only element, inside arrays and hash values) over bindings a=3, s=\"str\", y=foo, l=(1 2), e=(), nn=((1) 2); ^template must evaluate to my independent substitution (structural) and leave the stack depths unchanged. infn: (defn tf [n] WRAP(cond (== n 0) ^base ^step)) with WRAP in {none, let, letseq, begin, newScope, and}, step containing ~(tf (- n 1)) and/or ~@(tf (- n 1)) at random positions besides the usual unquotes (and ~n): (tf d), d=0..4, must equal the substitution computed level by level. macro: (defmac mm [params] ^body) with body such a template over the parameters (incl. & rest), called with argument forms carrying (trace ..) effects at top level, inside a function, a loop, a let and a defn; the call must have the value and trace of the hand-written expansion evaluated at the same place on a twin; (macexpand (mm ..)) must be the expansion; compiling a text that only expands it ((fn [a] (mm ..)) never called) must leave stack depths, trace and globals untouched. Non-trivial: >=1 splice and >=1 unquote of a compound expression (template) / of an argument form (macro), nesting >=2. Distinct by template text.")
	names := []string{"a", "s", "y", "l", "e", "nn"}
	p.rapidSub("template", ev.Scale(4000, 600000), func(t *rapid.T) {
		n := tnode{K: rapid.SampledFrom([]string{"list", "list", "arr"}).Draw(t, "topk")}
		for i := 0; i < rapid.IntRange(0, 5).Draw(t, "topn"); i++ {
			n.Kids = append(n.Kids, genTmpl(t, 1, names, true, true))
		}
		if rapid.IntRange(0, 9).Draw(t, "bare") == 0 {
			n = genTmpl(t, 1, names, true, false)
		}
		c := tmplCase{T: n}
		u, s, cx, d := n.stats()
		nt := s >= 1 && cx >= 1 && d >= 2
		labels := []string{}
		if s > 0 {
			labels = append(labels, "has-splice")
		}
		if cx > 0 {
			labels = append(labels, "has-compound-unquote")
		}
		if u > 0 {
			labels = append(labels, "has-unquote")
		}
		if strings.Contains(n.render(), "~@e") || strings.Contains(n.render(), "~@(list)") {
			labels = append(labels, "empty-splice")
		}
		if strings.Contains(n.render(), "{") {
			labels = append(labels, "hash-form")
		}
		r.Count("template", ev.Hash64(n.render()), nt, labels...)
		if nt {
			r.Sample("template", "^"+n.render())
		}
		p.report(t, "template", c, checkTemplate(c))
	})
	p.rapidSub("infn", ev.Scale(2500, 300000), func(t *rapid.T) {
		fnNames := append(append([]string{}, names...), "n")
		mk := func(label string, rec bool) tnode {
			// the template that is the function's value is a list or an array (^[...] takes
			// another path through the generator than ^(...))
			n := tnode{K: rapid.SampledFrom([]string{"list", "list", "arr"}).Draw(t, label+"k")}
			for i := 0; i < rapid.IntRange(0, 4).Draw(t, label+"n"); i++ {
				n.Kids = append(n.Kids, genTmpl(t, 2, fnNames, true, true))
			}
			return n
		}
		c := tmplFnCase{Base: mk("base", false), Step: mk("step", true)}
		nrec := rapid.IntRange(1, 2).Draw(t, "nrec")
		kinds := []string{}
		for i := 0; i < nrec; i++ {
			k := rapid.SampledFrom([]string{"splx", "unqx"}).Draw(t, "reck")
			kinds = append(kinds, k)
			c.Step = insertRec(t, c.Step, tnode{K: k, S: tmplRecSrc}, 0)
		}
		for _, k := range kinds {
			if k == "splx" {
				// only lists can be spliced ((tf k) is the base or the step template's value)
				c.Base.K, c.Step.K = "list", "list"
			}
		}
		c.Wrap = rapid.SampledFrom([]string{"none", "none", "let", "letseq", "begin", "newScope", "and"}).Draw(t, "wrap")
		c.Depth = rapid.IntRange(0, 4).Draw(t, "depth")
		if nrec == 2 && c.Depth > 3 {
			c.Depth = 3
		}
		last := len(c.Step.Kids) > 0 && c.Step.Kids[len(c.Step.Kids)-1].S == tmplRecSrc
		nt := c.Depth >= 2
		labels := []string{"wrap:" + c.Wrap, fmt.Sprintf("depth:%d", c.Depth)}
		for _, k := range kinds {
			labels = append(labels, "recursive-"+k)
		}
		if c.Step.K == "arr" {
			labels = append(labels, "function-value-is-array-template")
		}
		if last {
			labels = append(labels, "recursive-call-is-last-template-element")
		}
		r.Count("infn", ev.Hash64(c.text()+fmt.Sprint(c.Depth)), nt, labels...)
		if nt {
			r.Sample("infn", c.text()+fmt.Sprintf(" (tf %d)", c.Depth))
		}
		p.report(t, "infn", c, checkTemplateInFn(c))
	})
	argForms := []string{"(trace 1)", "(trace (+ a 1))", "5", "a", "(list 1 2)", "(begin (set cnt (+ cnt 1)) cnt)", "\"s\"", "(+ (trace 2) 3)", "[1 2]", "(trace b)"}
	p.rapidSub("macro", ev.Scale(2500, 400000), func(t *rapid.T) {
		np := rapid.IntRange(0, 3).Draw(t, "np")
		var params, pnames []string
		for i := 0; i < np; i++ {
			params = append(params, fmt.Sprintf("p%d", i))
			pnames = append(pnames, fmt.Sprintf("p%d", i))
		}
		variadic := rapid.IntRange(0, 2).Draw(t, "var") == 0
		if variadic {
			params = append(params, "& rest")
			pnames = append(pnames, "rest")
		}
		if len(pnames) == 0 {
			params, pnames = []string{"p0"}, []string{"p0"}
		}
		// body: a call-shaped template so that the expansion is evaluable: (op items...)
		body := tnode{K: "list", Kids: []tnode{{K: "sym", S: rapid.SampledFrom([]string{"list", "begin", "+", "array"}).Draw(t, "op")}}}
		for i := 0; i < rapid.IntRange(1, 4).Draw(t, "bn"); i++ {
			switch rapid.IntRange(0, 5).Draw(t, "bk") {
			case 0:
				body.Kids = append(body.Kids, tnode{K: "int", I: int64(i)})
			case 1:
				if variadic {
					body.Kids = append(body.Kids, tnode{K: "spl", S: "rest"})
					continue
				}
				fallthrough
			case 2:
				body.Kids = append(body.Kids, tnode{K: "unq", S: rapid.SampledFrom(pnames[:max(1, len(pnames)-btoi(variadic))]).Draw(t, "bp")})
			case 3:
				// nested form containing an unquote
				body.Kids = append(body.Kids, tnode{K: "list", Kids: []tnode{{K: "sym", S: "list"}, {K: "unq", S: pnames[0]}, {K: "int", I: 1}}})
			case 4:
				body.Kids = append(body.Kids, tnode{K: "arr", Kids: []tnode{{K: "unq", S: pnames[0]}}})
			default:
				if variadic {
					body.Kids = append(body.Kids, tnode{K: "list", Kids: []tnode{{K: "sym", S: "list"}, {K: "spl", S: "rest"}, {K: "spl", S: "rest"}}})
				} else {
					body.Kids = append(body.Kids, tnode{K: "sym", S: "a"})
				}
			}
		}
		var args []string
		nfixed := len(params)
		if variadic {
			nfixed--
		}
		for i := 0; i < nfixed; i++ {
			args = append(args, rapid.SampledFrom(argForms).Draw(t, "arg"))
		}
		if variadic {
			for i := 0; i < rapid.IntRange(0, 3).Draw(t, "nextra"); i++ {
				args = append(args, rapid.SampledFrom(argForms).Draw(t, "xarg"))
			}
		}
		c := macroCase{Params: params, Body: body, Args: args, Site: rapid.SampledFrom([]string{"top", "fn", "loop", "let", "defn"}).Draw(t, "site")}
		_, s, _, d := body.stats()
		nt := s >= 1 && d >= 2 && c.Site != "top"
		labels := []string{"site:" + c.Site}
		if variadic {
			labels = append(labels, "variadic-macro")
		}
		if s > 0 {
			labels = append(labels, "has-splice")
		}
		r.Count("macro", ev.Hash64(body.render(), strings.Join(args, " "), c.Site, strings.Join(params, " ")), nt, labels...)
		if nt {
			r.Sample("macro", map[string]any{"macro": "(defmac mm [" + strings.Join(params, " ") + "] ^" + body.render() + ")", "call": c.wrap("(mm " + strings.Join(args, " ") + ")")})
		}
		p.report(t, "macro", c, checkMacro(c))
	})
	if parseEnv != nil {
		parseEnv.Close()
		parseEnv = nil
	}
	p.done()
}

func btoi(b bool) int {
	if b {
		return 1
	}
	return 0
}
