package props

import (
	"fmt"
	"strings"
	"testing"

	"pgregory.net/rapid"

	"verif/harness/ev"
)

// C16 — lazy parameters delay, memoise and stay lexical; strict ones do not.
//
// Oracle: the reference evaluator with thunks (expression + defining environment + memo
// cell): same value, same error-vs-value, same trace. Argument expressions carry (trace ..)
// effects, so "not evaluated unless forced", "at most once", "in the caller's environment"
// and "strict arguments exactly once, left to right, before the body" are all trace facts.

type lazyGen struct {
	t      *rapid.T
	labels map[string]bool
	nextV  int
}

func (g *lazyGen) lab(s string) { g.labels[s] = true }

// argExpr: an argument expression with a traced effect, using the caller's local v (value known)
func (g *lazyGen) argExpr(callerLocal string) *Node {
	g.nextV++
	switch rapid.IntRange(0, 8).Draw(g.t, "argk") {
	case 7:
		// a bare variable: its value at the FIRST force is the argument's value for good
		g.lab("argument-is-bare-variable")
		return NVar("cnt")
	case 8:
		g.lab("argument-is-bare-variable")
		return NVar(callerLocal)
	case 0:
		return NTrace(NInt(int64(g.nextV)))
	case 1:
		return NTrace(NPrim("+", NVar(callerLocal), NInt(int64(g.nextV))))
	case 2:
		// bumps a global counter: evaluating twice would be visible
		return N("begin", NSet("cnt", NPrim("+", NVar("cnt"), NInt(1))), NTrace(NVar("cnt")))
	case 3:
		g.lab("argument-raises-error")
		return N("begin", NTrace(NInt(int64(900+g.nextV))), &Node{K: "stop", S: "arg failed"}, NInt(0))
	case 4:
		return NPrim("*", NTrace(NVar(callerLocal)), NInt(2))
	case 5:
		return NInt(int64(g.nextV))
	default:
		return NTrace(NPrim("len", N("arr", NVar(callerLocal), NInt(1))))
	}
}

type lazyFn struct {
	name   string
	params []string // "#x" lazy
	vari   bool
	node   *Node
}

// genLazyFn builds (defn name [params] body) whose body uses each parameter in a random way
func (g *lazyGen) genLazyFn(name string, forceUnary bool) lazyFn {
	np := rapid.IntRange(1, 4).Draw(g.t, "np")
	if forceUnary {
		np = 1
	}
	f := lazyFn{name: name}
	nlazy := 0
	for i := 0; i < np; i++ {
		pn := fmt.Sprintf("p%d", i)
		if rapid.IntRange(0, 1).Draw(g.t, "lazy") == 0 {
			pn = "#" + pn
			nlazy++
		}
		f.params = append(f.params, pn)
	}
	if !forceUnary && rapid.IntRange(0, 3).Draw(g.t, "vari") == 0 {
		f.vari = true
		if rapid.Bool().Draw(g.t, "sigilRest") {
			// a rest parameter spelled like a lazy one: extra arguments are still evaluated
			f.params = append(f.params, "#more")
			g.lab("variadic-rest-named-with-sigil")
		} else {
			f.params = append(f.params, "more")
		}
		g.lab("variadic")
	}
	if nlazy > 0 {
		g.lab("has-lazy-param")
	}
	if nlazy < np {
		g.lab("has-strict-param")
	}
	n := &Node{K: "defn", S: name, Names: f.params, Var: f.vari}
	// a local with the same name as the caller's local: forcing must not see it
	body := []*Node{}
	shadow := rapid.Bool().Draw(g.t, "shadowLocal")
	var uses []*Node
	for i, p := range f.params {
		if f.vari && i == len(f.params)-1 {
			uses = append(uses, NTrace(NPrim("len", NVar(p))))
			continue
		}
		if strings.HasPrefix(p, "#") {
			switch rapid.IntRange(0, 8).Draw(g.t, "lazyuse") {
			case 8:
				// the variable the argument may read is reassigned between two forces: memoised means unchanged
				g.lab("forced-reassigned-forced")
				uses = append(uses, NTrace(NPrim("force", NVar(p))), NSet("cnt", NPrim("+", NVar("cnt"), NInt(100))), NTrace(NPrim("force", NVar(p))))
			case 0:
				g.lab("never-forced")
			case 1:
				g.lab("forced-once")
				uses = append(uses, NTrace(NPrim("force", NVar(p))))
			case 2:
				g.lab("forced-many")
				uses = append(uses, NTrace(NPrim("+", NPrim("force", NVar(p)), NPrim("force", NVar(p)))), NTrace(NPrim("force", NVar(p))))
			case 3:
				g.lab("substitute")
				uses = append(uses, NTrace(NPrim("str", NPrim("substitute", NVar(p)))))
			case 4:
				g.lab("substitute-then-force")
				uses = append(uses, NTrace(NPrim("str", NPrim("substitute", NVar(p)))), NTrace(NPrim("force", NVar(p))))
			case 5:
				g.lab("type-query")
				uses = append(uses, NTrace(&Node{K: "islazy", Kids: []*Node{NVar(p)}}))
			case 6:
				g.lab("forced-under-condition")
				uses = append(uses, N("cond", NPrim("<", NVar("cnt"), NInt(2)), NTrace(NPrim("force", NVar(p))), NNil()))
			default:
				g.lab("forced-inside-let-with-same-name")
				uses = append(uses, &Node{K: "let", Names: []string{"loc"}, Kids: []*Node{NInt(1000), NTrace(NPrim("force", NVar(p)))}})
			}
		} else {
			switch rapid.IntRange(0, 2).Draw(g.t, "strictuse") {
			case 0:
				uses = append(uses, NTrace(NVar(p)))
			case 1:
				g.lab("strict-type-query")
				uses = append(uses, NTrace(&Node{K: "islazy", Kids: []*Node{NVar(p)}}))
			default:
				uses = append(uses, NTrace(NPrim("+", NVar(p), NVar(p))))
			}
		}
	}
	if shadow {
		body = append(body, NDef("loc", NInt(5000)))
		g.lab("callee-shadows-caller-local")
	}
	// shuffle uses a little: reverse or keep
	if rapid.Bool().Draw(g.t, "rev") {
		for i, j := 0, len(uses)-1; i < j; i, j = i+1, j-1 {
			uses[i], uses[j] = uses[j], uses[i]
		}
	}
	body = append(body, uses...)
	// result
	var firstLazy string
	for _, p := range f.params {
		if strings.HasPrefix(p, "#") {
			firstLazy = p
			break
		}
	}
	switch {
	case firstLazy != "" && rapid.IntRange(0, 2).Draw(g.t, "ret") == 0:
		g.lab("thunk-escapes-in-closure")
		body = append(body, &Node{K: "fn", Kids: []*Node{NPrim("force", NVar(firstLazy))}})
	default:
		body = append(body, NInt(7))
	}
	n.Kids = body
	if !f.vari && body[len(body)-1].K == "int" && rapid.IntRange(0, 3).Draw(g.t, "typed") == 0 {
		n.K = "funcdecl"
		g.lab("typed-func-declaration")
	}
	f.node = n
	return f
}

func (g *lazyGen) args(f lazyFn, callerLocal string) []*Node {
	var as []*Node
	np := len(f.params)
	if f.vari {
		np--
	}
	for i := 0; i < np; i++ {
		as = append(as, g.argExpr(callerLocal))
	}
	if f.vari {
		for i := 0; i < rapid.IntRange(0, 3).Draw(g.t, "extra"); i++ {
			as = append(as, g.argExpr(callerLocal))
		}
	}
	return as
}

// observe wraps a call so that a returned closure is called after the callee returned
func observe(call *Node) *Node {
	return &Node{K: "let", Names: []string{"res"}, Kids: []*Node{call,
		NTrace(N("cond", NPrim("func?", NVar("res")), NCall(NVar("res")), NVar("res")))}}
}

func genLazyProgram(t *rapid.T) ([]*Node, []string) {
	g := &lazyGen{t: t, labels: map[string]bool{}}
	var forms []*Node
	forms = append(forms, NDef("cnt", NInt(0)))
	f := g.genLazyFn("lf", false)
	forms = append(forms, f.node)
	u := g.genLazyFn("lu", true) // unary, for map
	forms = append(forms, u.node)
	nCalls := rapid.IntRange(1, 4).Draw(t, "ncalls")
	for i := 0; i < nCalls; i++ {
		route := rapid.SampledFrom([]string{"direct", "direct", "alias", "parameter", "computed", "apply", "map", "nested-in-function", "tail-recursion", "from-closure", "from-closure"}).Draw(t, "route")
		g.lab("route:" + route)
		local := "loc"
		var call *Node
		switch route {
		case "direct":
			call = NCall(NVar("lf"), g.args(f, local)...)
		case "alias":
			forms = append(forms, NDef("al", NVar("lf")))
			call = NCall(NVar("al"), g.args(f, local)...)
		case "parameter":
			inner := NCall(NVar("fp"), g.args(f, local)...)
			call = NCall(&Node{K: "fn", Names: []string{"fp"}, Kids: []*Node{&Node{K: "let", Names: []string{"loc"}, Kids: []*Node{NInt(70), inner}}}}, NVar("lf"))
		case "computed":
			call = NCall(NCall(&Node{K: "fn", Kids: []*Node{NTrace(NInt(-1)), NVar("lf")}}), g.args(f, local)...)
		case "apply":
			arr := N("arr")
			for _, a := range g.args(f, local) {
				arr.Kids = append(arr.Kids, a)
			}
			call = NPrim("apply", NVar("lf"), arr)
		case "map":
			call = NPrim("map", NVar("lu"), N("arr", g.argExpr(local), g.argExpr(local)))
		case "nested-in-function":
			// the caller is itself a function with its own local; thunks must see that local
			forms = append(forms, &Node{K: "defn", S: "caller", Names: []string{"loc"}, Kids: []*Node{NCall(NVar("lf"), g.args(f, "loc")...)}})
			call = NCall(NVar("caller"), NInt(int64(40+i)))
		case "from-closure":
			// the caller is a closure called after its maker returned: argument expressions use
			// the variable that closure captured (not a local of the frame doing the call)
			mk := fmt.Sprintf("mkc%d", i)
			inner := NCall(NVar("lf"), g.args(f, "loc")...)
			var clo *Node
			if rapid.Bool().Draw(t, "cloLet") {
				clo = &Node{K: "fn", Kids: []*Node{&Node{K: "let", Names: []string{"own"}, Kids: []*Node{NInt(1), inner}}}}
			} else {
				clo = &Node{K: "fn", Kids: []*Node{inner}}
			}
			forms = append(forms, &Node{K: "defn", S: mk, Names: []string{"loc"}, Kids: []*Node{clo}})
			forms = append(forms, NDef(mk+"c", NCall(NVar(mk), NInt(int64(300+i)))))
			call = NCall(NVar(mk + "c"))
		case "tail-recursion":
			// (defn tr [n #x] (cond (<= n 0) (force #x) (tr (- n 1) (trace (+ n loc)))))
			forms = append(forms, &Node{K: "defn", S: "tr", Names: []string{"n", "#x"}, Kids: []*Node{
				NDef("loc", NPrim("*", NVar("n"), NInt(100))),
				N("cond", NPrim("<=", NVar("n"), NInt(0)), NPrim("force", NVar("#x")),
					NCall(NVar("tr"), NPrim("-", NVar("n"), NInt(1)), NTrace(NPrim("+", NVar("n"), NVar("loc")))))}})
			call = NCall(NVar("tr"), NInt(int64(rapid.IntRange(0, 4).Draw(t, "trn"))), NTrace(NInt(-5)))
		}
		if route == "map" {
			forms = append(forms, &Node{K: "let", Names: []string{"loc"}, Kids: []*Node{NInt(int64(10 * (i + 1))), NTrace(NPrim("len", call))}})
		} else {
			forms = append(forms, &Node{K: "let", Names: []string{"loc"}, Kids: []*Node{NInt(int64(10 * (i + 1))), observe(call)}})
		}
	}
	forms = append(forms, NTrace(NVar("cnt")))
	var labels []string
	for l := range g.labels {
		labels = append(labels, l)
	}
	sortStrings(labels)
	return forms, labels
}

var checkLazyProgR = reg("C16", "program", func(c progCase) *ev.Failure {
	f, _, _ := compareWithRef(c, "")
	return f
})

func TestC16(t *testing.T) {
	p := begin(t, "C16")
	r := p.r
	r.SetRule("case = program defining a function lf with 1-4 parameters in any mix of strict / #lazy / & rest and a unary lu, whose bodies force each lazy parameter never, once, several times, under a condition, inside a let that shadows the caller's local, take (substitute ..) of it, query its type, or return a closure that forces it after the callee returned; 1-4 calls through routes {direct, alias, function parameter, computed callee, apply, map, call from inside another function, call from inside a closure (after its maker returned) with arguments using the captured variable, tail self-recursion with a lazy parameter}; every argument expression has a (trace ..) effect, bumps a global counter, reads the caller's local, or raises an error. Oracle: reference evaluator with thunks: same value, error-vs-value and trace. Non-trivial: >=1 lazy and >=1 strict parameter and a non-direct route. Distinct by source text.")
	p.rapidSub("program", ev.Scale(5000, 600000), func(t *rapid.T) {
		forms, labels := genLazyProgram(t)
		c := progCase{Forms: forms}
		text := RenderProgram(forms)
		f, inDomain, _ := compareWithRef(c, "")
		if !inDomain {
			r.Exclude("outside-reference-language-or-budget")
			return
		}
		nonDirect := false
		for _, l := range labels {
			if strings.HasPrefix(l, "route:") && l != "route:direct" {
				nonDirect = true
			}
		}
		nt := contains(labels, "has-lazy-param") && contains(labels, "has-strict-param") && nonDirect
		r.Count("program", ev.Hash64(text), nt, labels...)
		if nt {
			r.Sample("program", text)
		}
		p.report(t, "program", c, f)
	})
	p.done()
}
