package props

import (
	"fmt"
	"sort"
	"strings"
	"sync/atomic"
	"testing"

	"github.com/glycerine/zygomys/v9/zygo"
	"pgregory.net/rapid"

	"verif/harness/ev"
)

// C17 — declared struct types are enforced on every write.
//
// Oracle: a declaration model. Every struct declaration creates a new version
// of that name; an instance belongs to the version that was current when it
// was created. Each write (construction, field update through every route,
// write through a pointer, decoding) gets a verdict from the model:
//   must   the value has the field's declared type: the write must succeed and be visible
//   reject the field is not declared or the value's type differs: an error, nothing changes
//   either the statement does not settle it (cross-version pointer / stale struct type):
//          whichever zygo does, the state must stay consistent
// After EVERY step all live instances (reachable through variables, fields and
// pointers) are read back through the Go API and compared with the model.

// history ----------------------------------------------------------------------

type sType struct {
	K    string `json:"k"` // int64 float64 string bool slice ptr struct
	Elem string `json:"elem,omitempty"`
}

type sField struct {
	Name string `json:"name"`
	T    sType  `json:"t"`
}

type sInit struct {
	Field string `json:"field"`
	Val   sVal   `json:"val"`
}

type sVal struct {
	K     string  `json:"k"` // int float str bool nil empty ints strs floats pint pstr pinst inst new hash
	I     int64   `json:"i,omitempty"`
	S     string  `json:"s,omitempty"`
	Var   string  `json:"var,omitempty"`
	Type  string  `json:"type,omitempty"`
	Inits []sInit `json:"inits,omitempty"`
}

type sOp struct {
	Op     string   `json:"op"` // declare new write decode derefset alias
	Name   string   `json:"name,omitempty"`
	Fields []sField `json:"fields,omitempty"`
	Var    string   `json:"var,omitempty"`
	Type   string   `json:"type,omitempty"`
	Inits  []sInit  `json:"inits,omitempty"`
	Route  string   `json:"route,omitempty"`
	Path   []string `json:"path,omitempty"`
	Val    *sVal    `json:"val,omitempty"`
	Src    *sVal    `json:"src,omitempty"`
}

type structCase struct {
	Ops []sOp `json:"ops"`
}

var c17seq int64

func (t sType) render(pre string) string {
	switch t.K {
	case "slice":
		return "([]" + t.Elem + ")"
	case "ptr":
		if len(t.Elem) == 1 {
			return "(* " + pre + t.Elem + ")"
		}
		return "(* " + t.Elem + ")"
	case "struct":
		return pre + t.Elem
	}
	return t.K
}

func (v sVal) render(pre string) string {
	switch v.K {
	case "int":
		return fmt.Sprint(v.I)
	case "float":
		return fmt.Sprintf("%d.5", v.I)
	case "str":
		return fmt.Sprintf("%q", v.S)
	case "bool":
		return fmt.Sprint(v.I != 0)
	case "nil":
		return "nil"
	case "empty":
		return "[]"
	case "ints":
		return fmt.Sprintf("[%d %d]", v.I, v.I+1)
	case "strs":
		return fmt.Sprintf("[%q %q]", v.S, v.S+"2")
	case "floats":
		return fmt.Sprintf("[%d.5]", v.I)
	case "nilarr":
		// an array whose first element has no type of its own
		return fmt.Sprintf("[nil %d]", v.I)
	case "pint":
		return fmt.Sprintf("(& %d)", v.I)
	case "pstr":
		return fmt.Sprintf("(& %q)", v.S)
	case "pinst":
		return "(& " + v.Var + ")"
	case "inst":
		return v.Var
	case "new":
		return "(" + pre + v.Type + renderInits(v.Inits, pre) + ")"
	case "hash":
		return "(hash a: 1)"
	}
	return "nil"
}

func renderInits(in []sInit, pre string) string {
	var b strings.Builder
	for _, i := range in {
		b.WriteString(" " + i.Field + ": " + i.Val.render(pre))
	}
	return b.String()
}

func (v sVal) json(pre string) (string, bool) {
	switch v.K {
	case "int", "float", "str", "bool":
		return v.render(pre), true
	case "nil":
		return "null", true
	case "empty":
		return "[]", true
	case "ints":
		return fmt.Sprintf("[%d, %d]", v.I, v.I+1), true
	case "strs":
		return fmt.Sprintf("[%q, %q]", v.S, v.S+"2"), true
	case "floats":
		return fmt.Sprintf("[%d.5]", v.I), true
	case "new":
		s, ok := jsonObject(v.Type, v.Inits, pre, false)
		return s, ok
	}
	return "", false
}

func jsonObject(typ string, in []sInit, pre string, keyOrder bool) (string, bool) {
	parts := []string{fmt.Sprintf("%q:%q", "Atype", pre+typ)}
	var ko []string
	for _, i := range in {
		j, ok := i.Val.json(pre)
		if !ok {
			return "", false
		}
		parts = append(parts, fmt.Sprintf("%q:%s", i.Field, j))
		ko = append(ko, fmt.Sprintf("%q", i.Field))
	}
	if keyOrder {
		parts = append(parts, fmt.Sprintf("%q:[%s]", "zKeyOrder", strings.Join(ko, ",")))
	}
	return "{" + strings.Join(parts, ", ") + "}", true
}

func (o sOp) render(pre string) string {
	switch o.Op {
	case "declare":
		var b strings.Builder
		b.WriteString("(struct " + pre + o.Name + " [")
		for _, f := range o.Fields {
			b.WriteString("(field " + f.Name + ": " + f.T.render(pre) + ") ")
		}
		b.WriteString("])")
		return b.String()
	case "new":
		return "(def " + o.Var + " (" + pre + o.Type + renderInits(o.Inits, pre) + "))"
	case "alias":
		return "(def " + o.Var + " " + o.Src.Var + ")"
	case "derefset":
		return "(derefSet (& " + o.Var + ") " + o.Src.render(pre) + ")"
	case "decode":
		switch o.Route {
		case "rawjson", "rawjson-keyorder":
			j, _ := jsonObject(o.Type, o.Inits, pre, o.Route == "rawjson-keyorder")
			return "(def " + o.Var + " (unjson (raw `" + j + "`)))"
		case "viahash-json":
			return "(def " + o.Var + " (unjson (json (hash Atype: " + fmt.Sprintf("%q", pre+o.Type) + renderInits(o.Inits, pre) + "))))"
		default:
			return "(def " + o.Var + " (unmsgpack (msgpack (hash Atype: " + fmt.Sprintf("%q", pre+o.Type) + renderInits(o.Inits, pre) + "))))"
		}
	case "write":
		v := o.Val.render(pre)
		x := o.Var
		f := o.Path[len(o.Path)-1]
		switch o.Route {
		case "hset":
			return "(hset " + x + " " + f + ": " + v + ")"
		case "hset-arraykey":
			return "(hset " + x + " [" + f + ":] " + v + ")"
		case "hset-strkey":
			return "(hset " + x + " " + fmt.Sprintf("%q", f) + " " + v + ")"
		case "infix":
			return "{" + x + "." + f + " = " + v + "}"
		case "set":
			return "(set " + x + "." + f + " " + v + ")"
		case "fn-hset":
			return "((fn [h] (hset h " + f + ": " + v + ")) " + x + ")"
		case "fn-infix":
			return "((fn [h w] {h." + f + " = w}) " + x + " " + v + ")"
		case "deref-hset":
			return "(hset (* (& " + x + ")) " + f + ": " + v + ")"
		case "infix2":
			return "{" + x + "." + o.Path[0] + "." + f + " = " + v + "}"
		case "set2":
			return "(set " + x + "." + o.Path[0] + "." + f + " " + v + ")"
		case "hset-dot":
			return "(hset " + x + "." + o.Path[0] + " " + f + ": " + v + ")"
		case "hset-colon":
			return "(hset (:" + o.Path[0] + " " + x + ") " + f + ": " + v + ")"
		case "ptr-field":
			return "(hset (* (:" + o.Path[0] + " " + x + ")) " + f + ": " + v + ")"
		}
	}
	return "nil"
}

func (c structCase) String() string {
	var lines []string
	for _, o := range c.Ops {
		lines = append(lines, o.render(""))
	}
	return strings.Join(lines, "\n")
}

// model --------------------------------------------------------------------------

type mDecl struct {
	Name   string
	Ver    int
	Fields map[string]mType
}

type mType struct {
	K, Elem string
	Decl    *mDecl // struct-valued fields: the version current at declaration time
}

type mInst struct {
	ID   int
	Decl *mDecl
	F    map[string]mv
	real *zygo.SexpHash
}

type mv struct {
	K    string
	I    int64
	S    string
	Inst *mInst
}

const (
	vMust = iota
	vEither
	vReject
)

type sModel struct {
	cur  map[string]*mDecl
	ver  map[string]int
	vars map[string]*mInst
	next int
}

func newSModel() *sModel {
	return &sModel{cur: map[string]*mDecl{}, ver: map[string]int{}, vars: map[string]*mInst{}}
}

func maxv(a, b int) int {
	if a > b {
		return a
	}
	return b
}

// accept: verdict for storing v into a field of type ft
func (m *sModel) accept(ft mType, v mv) int {
	if v.K == "nil" {
		return vMust
	}
	switch ft.K {
	case "int64":
		if v.K == "int" {
			return vMust
		}
	case "float64":
		if v.K == "float" {
			return vMust
		}
	case "string":
		if v.K == "str" {
			return vMust
		}
	case "bool":
		if v.K == "bool" {
			return vMust
		}
	case "slice":
		if v.K == "empty" {
			return vMust
		}
		if v.K == "nilarr" {
			return vEither // [nil 1] has no element type to compare with the declared one
		}
		if v.K == map[string]string{"int64": "ints", "string": "strs", "float64": "floats"}[ft.Elem] {
			return vMust
		}
	case "ptr":
		switch ft.Elem {
		case "int64":
			if v.K == "pint" {
				return vMust
			}
		case "string":
			if v.K == "pstr" {
				return vMust
			}
		default:
			if v.K == "pinst" && v.Inst.Decl.Name == ft.Elem {
				if m.ver[ft.Elem] == 1 {
					return vMust
				}
				return vEither // pointer types are per name in zygo; across versions the statement is silent
			}
		}
	case "struct-self":
		if v.K == "inst" && v.Inst.Decl == ft.Decl {
			return vEither
		}
	case "struct":
		if v.K == "inst" && v.Inst.Decl.Name == ft.Elem {
			if v.Inst.Decl == ft.Decl {
				if m.cur[ft.Elem] == ft.Decl {
					return vMust
				}
				return vEither // the field's struct type was redeclared since: zygo refuses every value
			}
			return vReject // an instance of another version of that struct
		}
	}
	return vReject
}

// value evaluates an sVal in the model: the value, and the verdict of whatever it constructs
func (m *sModel) value(v sVal) (mv, int, []*mInst) {
	switch v.K {
	case "int", "bool", "float":
		return mv{K: v.K, I: v.I}, vMust, nil
	case "str":
		return mv{K: "str", S: v.S}, vMust, nil
	case "nil", "empty", "hash":
		return mv{K: v.K}, vMust, nil
	case "ints", "floats", "pint", "nilarr":
		return mv{K: v.K, I: v.I}, vMust, nil
	case "strs", "pstr":
		return mv{K: v.K, S: v.S}, vMust, nil
	case "pinst", "inst":
		in := m.vars[v.Var]
		if in == nil {
			return mv{K: "nil"}, vReject, nil
		}
		return mv{K: v.K, Inst: in}, vMust, nil
	case "new":
		in, verdict := m.construct(v.Type, v.Inits)
		if in == nil {
			return mv{K: "nil"}, vReject, nil
		}
		return mv{K: "inst", Inst: in}, verdict, []*mInst{in}
	}
	return mv{K: "nil"}, vMust, nil
}

func (m *sModel) construct(typ string, inits []sInit) (*mInst, int) {
	d := m.cur[typ]
	if d == nil {
		return nil, vReject
	}
	m.next++
	in := &mInst{ID: m.next, Decl: d, F: map[string]mv{}}
	verdict := vMust
	for _, i := range inits {
		val, vv, _ := m.value(i.Val)
		verdict = maxv(verdict, vv)
		ft, ok := d.Fields[i.Field]
		if !ok {
			verdict = vReject
			continue
		}
		verdict = maxv(verdict, m.accept(ft, val))
		in.F[i.Field] = val
	}
	return in, verdict
}

// target of a write: the instance whose field is written
func (m *sModel) target(o sOp) *mInst {
	in := m.vars[o.Var]
	if in == nil || len(o.Path) == 1 {
		return in
	}
	hop := in.F[o.Path[0]]
	if o.Route == "ptr-field" {
		if hop.K == "pinst" {
			return hop.Inst
		}
		return nil
	}
	if hop.K == "inst" {
		return hop.Inst
	}
	return nil
}

// refsOK: every variable and type the op mentions exists in the model
func (m *sModel) refsOK(o sOp) bool {
	var valOK func(v *sVal) bool
	initsOK := func(in []sInit) bool {
		for i := range in {
			if !valOK(&in[i].Val) {
				return false
			}
		}
		return true
	}
	valOK = func(v *sVal) bool {
		if v == nil {
			return true
		}
		switch v.K {
		case "inst", "pinst":
			return m.vars[v.Var] != nil
		case "new":
			return m.cur[v.Type] != nil && initsOK(v.Inits)
		}
		return true
	}
	switch o.Op {
	case "declare":
		return true
	case "new", "decode":
		return m.cur[o.Type] != nil && initsOK(o.Inits)
	case "alias":
		return valOK(o.Src)
	case "derefset":
		return m.vars[o.Var] != nil && valOK(o.Src)
	case "write":
		return m.vars[o.Var] != nil && m.target(o) != nil && valOK(o.Val)
	}
	return true
}

// plan computes the verdict of an op and the function that applies it to the model
func (m *sModel) plan(o sOp) (verdict int, apply func()) {
	switch o.Op {
	case "declare":
		d := &mDecl{Name: o.Name, Ver: m.ver[o.Name] + 1, Fields: map[string]mType{}}
		for _, f := range o.Fields {
			mt := mType{K: f.T.K, Elem: f.T.Elem}
			if f.T.K == "struct" {
				mt.Decl = m.cur[f.T.Elem]
				if f.T.Elem == o.Name {
					// the name is registered before the fields are read: a struct that contains
					// itself by value. No value but nil can sensibly have that type (Go refuses the
					// declaration); zygo accepts the declaration and refuses every instance.
					mt.Decl = d
					mt.K = "struct-self"
				}
				if mt.Decl == nil {
					return vReject, func() {}
				}
			}
			if f.T.K == "ptr" && len(f.T.Elem) == 1 && m.cur[f.T.Elem] == nil && f.T.Elem != o.Name {
				return vReject, func() {}
			}
			d.Fields[f.Name] = mt
		}
		return vMust, func() { m.cur[o.Name] = d; m.ver[o.Name] = d.Ver }
	case "new", "decode":
		in, verdict := m.construct(o.Type, o.Inits)
		return verdict, func() { m.vars[o.Var] = in }
	case "alias":
		return vMust, func() { m.vars[o.Var] = m.vars[o.Src.Var] }
	case "derefset":
		dst := m.vars[o.Var]
		val, verdict, _ := m.value(*o.Src)
		if val.K != "inst" || dst == nil {
			return vReject, func() {}
		}
		if val.Inst.Decl.Name != dst.Decl.Name {
			return vReject, func() {}
		}
		if val.Inst.Decl != dst.Decl {
			// an instance keeps the definition in force when it was created: a value of another
			// version of the same name would give it fields its definition does not declare
			return vReject, func() {}
		}
		if m.ver[dst.Decl.Name] > 1 {
			verdict = maxv(verdict, vEither)
		}
		return verdict, func() {
			dst.Decl = val.Inst.Decl
			nf := map[string]mv{}
			for k, v := range val.Inst.F {
				nf[k] = v
			}
			dst.F = nf
		}
	case "write":
		tgt := m.target(o)
		val, verdict, _ := m.value(*o.Val)
		if tgt == nil {
			return vReject, func() {}
		}
		f := o.Path[len(o.Path)-1]
		if o.Route == "hset-strkey" {
			// a string is not the name of any declared field
			return vReject, func() {}
		}
		ft, ok := tgt.Decl.Fields[f]
		if !ok {
			return vReject, func() {}
		}
		verdict = maxv(verdict, m.accept(ft, val))
		return verdict, func() { tgt.F[f] = val }
	}
	return vMust, func() {}
}

// comparison with the real interpreter ------------------------------------------------

func cmpVal(env *zygo.Zlisp, pre string, actual zygo.Sexp, want mv, seen map[*mInst]bool) string {
	switch want.K {
	case "int":
		if a, ok := actual.(*zygo.SexpInt); ok && a.Val == want.I {
			return ""
		}
	case "float":
		if a, ok := actual.(*zygo.SexpFloat); ok && a.Val == float64(want.I)+0.5 {
			return ""
		}
	case "str":
		if a, ok := actual.(*zygo.SexpStr); ok && a.S == want.S {
			return ""
		}
	case "bool":
		if a, ok := actual.(*zygo.SexpBool); ok && a.Val == (want.I != 0) {
			return ""
		}
	case "nil":
		if actual == zygo.SexpNull {
			return ""
		}
	case "empty":
		if a, ok := actual.(*zygo.SexpArray); ok && len(a.Val) == 0 {
			return ""
		}
	case "ints":
		if a, ok := actual.(*zygo.SexpArray); ok && len(a.Val) == 2 {
			x, ok1 := a.Val[0].(*zygo.SexpInt)
			y, ok2 := a.Val[1].(*zygo.SexpInt)
			if ok1 && ok2 && x.Val == want.I && y.Val == want.I+1 {
				return ""
			}
		}
	case "strs":
		if a, ok := actual.(*zygo.SexpArray); ok && len(a.Val) == 2 {
			x, ok1 := a.Val[0].(*zygo.SexpStr)
			y, ok2 := a.Val[1].(*zygo.SexpStr)
			if ok1 && ok2 && x.S == want.S && y.S == want.S+"2" {
				return ""
			}
		}
	case "nilarr":
		if a, ok := actual.(*zygo.SexpArray); ok && len(a.Val) == 2 && a.Val[0] == zygo.SexpNull {
			if y, ok := a.Val[1].(*zygo.SexpInt); ok && y.Val == want.I {
				return ""
			}
		}
	case "floats":
		if a, ok := actual.(*zygo.SexpArray); ok && len(a.Val) == 1 {
			if x, ok := a.Val[0].(*zygo.SexpFloat); ok && x.Val == float64(want.I)+0.5 {
				return ""
			}
		}
	case "pint":
		if a, ok := actual.(*zygo.SexpPointer); ok {
			if x, ok := a.Target.(*zygo.SexpInt); ok && x.Val == want.I {
				return ""
			}
		}
	case "pstr":
		if a, ok := actual.(*zygo.SexpPointer); ok {
			if x, ok := a.Target.(*zygo.SexpStr); ok && x.S == want.S {
				return ""
			}
		}
	case "pinst":
		if a, ok := actual.(*zygo.SexpPointer); ok {
			if h, ok := a.Target.(*zygo.SexpHash); ok {
				return cmpInst(env, pre, h, want.Inst, seen)
			}
		}
	case "inst":
		if h, ok := actual.(*zygo.SexpHash); ok {
			return cmpInst(env, pre, h, want.Inst, seen)
		}
	}
	s, _ := printSexp(actual)
	return fmt.Sprintf("holds %s (%T), model has %s", s, actual, want.K)
}

func cmpInst(env *zygo.Zlisp, pre string, h *zygo.SexpHash, in *mInst, seen map[*mInst]bool) string {
	if in.real == nil {
		in.real = h
	} else if in.real != h {
		return fmt.Sprintf("instance #%d is not the same object as before", in.ID)
	}
	if seen[in] {
		return ""
	}
	seen[in] = true
	if h.TypeName != pre+in.Decl.Name {
		return fmt.Sprintf("instance #%d has type %s, model %s", in.ID, h.TypeName, pre+in.Decl.Name)
	}
	have := map[string]bool{}
	for _, k := range h.KeyOrder {
		sym, ok := k.(*zygo.SexpSymbol)
		if !ok {
			s, _ := printSexp(k)
			return fmt.Sprintf("instance #%d of %s has a member %s that is not a declared field", in.ID, in.Decl.Name, s)
		}
		name := sym.Name()
		if _, declared := in.Decl.Fields[name]; !declared {
			return fmt.Sprintf("instance #%d of %s (version %d) has field %s, which its declaration does not have", in.ID, in.Decl.Name, in.Decl.Ver, name)
		}
		if _, ok := in.F[name]; !ok {
			return fmt.Sprintf("instance #%d of %s has field %s, which was never (successfully) written", in.ID, in.Decl.Name, name)
		}
		if have[name] {
			return fmt.Sprintf("instance #%d lists field %s twice", in.ID, name)
		}
		have[name] = true
		val, err := h.HashGet(env, k)
		if err != nil {
			return fmt.Sprintf("instance #%d lists field %s but reading it fails: %v", in.ID, name, err)
		}
		if d := cmpVal(env, pre, val, in.F[name], seen); d != "" {
			return fmt.Sprintf("instance #%d of %s field %s: %s", in.ID, in.Decl.Name, name, d)
		}
	}
	for name := range in.F {
		if !have[name] {
			return fmt.Sprintf("instance #%d of %s lost field %s", in.ID, in.Decl.Name, name)
		}
	}
	return ""
}

// check -------------------------------------------------------------------------

func opSig(o sOp, m *sModel) string {
	switch o.Op {
	case "write":
		tk := "?"
		if tgt := m.target(o); tgt != nil {
			if ft, ok := tgt.Decl.Fields[o.Path[len(o.Path)-1]]; ok {
				tk = ft.K
			} else {
				tk = "undeclared"
			}
		}
		return "write:" + o.Route + ":" + tk + "<-" + o.Val.K
	case "decode":
		return "decode:" + o.Route
	}
	return o.Op
}

func checkStructHistory(c structCase) *ev.Failure {
	env := newEnv(envFull)
	defer env.Close()
	pre := fmt.Sprintf("Zq%dq", atomic.AddInt64(&c17seq, 1))
	// the type registry is process-global and keeps every declared type (and, through its
	// fields, the interpreter that declared it) alive: drop this case's types afterwards
	defer func() {
		for k := range zygo.GoStructRegistry.Registry {
			if strings.Contains(k, pre) {
				delete(zygo.GoStructRegistry.Registry, k)
			}
		}
		for k := range zygo.GoStructRegistry.Userdef {
			if strings.Contains(k, pre) {
				delete(zygo.GoStructRegistry.Userdef, k)
			}
		}
		kept := zygo.ListRegisteredTypes[:0]
		for _, n := range zygo.ListRegisteredTypes {
			if !strings.Contains(n, pre) {
				kept = append(kept, n)
			}
		}
		zygo.ListRegisteredTypes = kept
	}()
	m := newSModel()
	var done []string
	for i, o := range c.Ops {
		if !m.refsOK(o) {
			// an earlier step the statement leaves open went the other way than the
			// generator assumed: the variables this step needs do not exist
			continue
		}
		text := o.render(pre)
		verdict, apply := m.plan(o)
		sig := opSig(o, m)
		res := evalString(env, text+"\n", 200000)
		done = append(done, text)
		hist := strings.ReplaceAll(strings.Join(done, "\n"), pre, "")
		mk := func(kind, msg, exp, obs string) *ev.Failure {
			return &ev.Failure{Sig: kind + ":" + sig, Msg: fmt.Sprintf("step %d: %s\nhistory:\n%s", i+1, msg, hist), Expected: exp, Observed: strings.ReplaceAll(obs, pre, "")}
		}
		if res.Panic != "" {
			return mk("panic", "a Go panic escapes", "value or error", res.Panic)
		}
		failed := res.Err != nil
		switch verdict {
		case vMust:
			if failed {
				return mk("refused-valid", "a write of a value of the declared type is refused: "+strings.ReplaceAll(firstLine(res.Err.Error()), pre, ""), "success", firstLine(res.Err.Error()))
			}
			apply()
		case vReject:
			if !failed {
				s, _ := printSexp(res.Val)
				return mk("accepted-invalid", "a write that the declaration does not allow reports no error", "an error", "value "+s)
			}
		default:
			if !failed {
				apply()
			}
		}
		// the whole live state against the model
		var names []string
		for v := range m.vars {
			names = append(names, v)
		}
		sort.Strings(names)
		seen := map[*mInst]bool{}
		for _, v := range names {
			rv := evalString(env, v+"\n", 10000)
			if rv.Err != nil || rv.Panic != "" {
				return mk("lost-variable", "variable "+v+" cannot be read any more", "an instance", fmt.Sprint(rv.Err, rv.Panic))
			}
			h, ok := rv.Val.(*zygo.SexpHash)
			if !ok {
				return mk("lost-variable", "variable "+v+" no longer holds a record", "an instance", fmt.Sprintf("%T", rv.Val))
			}
			if d := cmpInst(env, pre, h, m.vars[v], seen); d != "" {
				kind := "state-diverged"
				if failed {
					kind = "changed-by-rejected-write"
				}
				return mk(kind, "after this step, variable "+v+": "+d, "the model's state", d)
			}
		}
		if (o.Op == "new" || o.Op == "decode") && failed {
			if rv := evalString(env, o.Var+"\n", 10000); rv.Err == nil && rv.Panic == "" {
				s, _ := printSexp(rv.Val)
				return mk("bound-by-rejected-construction", "the rejected construction still bound "+o.Var, "unbound", s)
			}
		}
	}
	return nil
}

var checkStructHistoryR = reg("C17", "history", checkStructHistory)

// generator -----------------------------------------------------------------------

var c17FieldNames = []string{"Id", "Nm", "Ok", "Wt", "Sl", "Ns", "Pi", "Ot", "Op", "tag"}

type sGen struct {
	t      *rapid.T
	m      *sModel
	nvar   int
	labels map[string]bool
	routes map[string]bool
}

func (g *sGen) pick(n int, l string) int { return rapid.IntRange(0, n-1).Draw(g.t, l) }

func (g *sGen) genType(self string) sType {
	var names []string
	for n := range g.m.cur {
		names = append(names, n)
	}
	sort.Strings(names)
	switch g.pick(12, "tk") {
	case 0, 1:
		return sType{K: "int64"}
	case 2:
		return sType{K: "float64"}
	case 3:
		return sType{K: "string"}
	case 4:
		return sType{K: "bool"}
	case 5:
		return sType{K: "slice", Elem: rapid.SampledFrom([]string{"int64", "string", "float64"}).Draw(g.t, "se")}
	case 6:
		return sType{K: "ptr", Elem: rapid.SampledFrom([]string{"int64", "string"}).Draw(g.t, "pe")}
	case 7:
		cands := append(append([]string{}, names...), self)
		return sType{K: "ptr", Elem: rapid.SampledFrom(cands).Draw(g.t, "ps")}
	default:
		if len(names) > 0 {
			return sType{K: "struct", Elem: rapid.SampledFrom(names).Draw(g.t, "ss")}
		}
		return sType{K: "int64"}
	}
}

func (g *sGen) varsOf(name string, d *mDecl) []string {
	var out []string
	for v, in := range g.m.vars {
		if in.Decl.Name == name && (d == nil || in.Decl == d) {
			out = append(out, v)
		}
	}
	sort.Strings(out)
	return out
}

func (g *sGen) allVars() []string {
	var out []string
	for v := range g.m.vars {
		out = append(out, v)
	}
	sort.Strings(out)
	return out
}

// baseVal: a value of a base kind
func (g *sGen) anyVal(depth int) sVal {
	kinds := []string{"int", "float", "str", "bool", "nil", "empty", "ints", "strs", "floats", "nilarr", "pint", "pstr", "hash"}
	if len(g.m.vars) > 0 {
		kinds = append(kinds, "pinst", "inst", "inst")
	}
	if depth == 0 && len(g.m.cur) > 0 {
		kinds = append(kinds, "new")
	}
	return g.valOfKind(rapid.SampledFrom(kinds).Draw(g.t, "vk"), depth, "")
}

func (g *sGen) valOfKind(k string, depth int, typ string) sVal {
	v := sVal{K: k}
	switch k {
	case "int", "float", "ints", "floats", "pint", "nilarr":
		v.I = int64(g.pick(90, "vi"))
	case "bool":
		v.I = int64(g.pick(2, "vb"))
	case "str", "strs", "pstr":
		v.S = rapid.SampledFrom([]string{"a", "bc", "", "x y"}).Draw(g.t, "vs")
	case "pinst", "inst":
		vs := g.allVars()
		if typ != "" {
			if of := g.varsOf(typ, nil); len(of) > 0 {
				vs = of
			}
		}
		if len(vs) == 0 {
			return sVal{K: "nil"}
		}
		v.Var = rapid.SampledFrom(vs).Draw(g.t, "vv")
	case "new":
		var names []string
		for n := range g.m.cur {
			names = append(names, n)
		}
		sort.Strings(names)
		if typ == "" {
			typ = rapid.SampledFrom(names).Draw(g.t, "nt")
		}
		v.Type = typ
		v.Inits = g.genInits(typ, depth+1, 2)
	}
	return v
}

// validVal: a value the field type accepts
func (g *sGen) validVal(ft mType, depth int) sVal {
	if g.pick(8, "nilok") == 0 {
		return sVal{K: "nil"}
	}
	switch ft.K {
	case "int64":
		return g.valOfKind("int", depth, "")
	case "float64":
		return g.valOfKind("float", depth, "")
	case "string":
		return g.valOfKind("str", depth, "")
	case "bool":
		return g.valOfKind("bool", depth, "")
	case "slice":
		if g.pick(4, "emptyok") == 0 {
			return sVal{K: "empty"}
		}
		return g.valOfKind(map[string]string{"int64": "ints", "string": "strs", "float64": "floats"}[ft.Elem], depth, "")
	case "ptr":
		switch ft.Elem {
		case "int64":
			return g.valOfKind("pint", depth, "")
		case "string":
			return g.valOfKind("pstr", depth, "")
		}
		if len(g.varsOf(ft.Elem, nil)) > 0 {
			return g.valOfKind("pinst", depth, ft.Elem)
		}
		return sVal{K: "nil"}
	case "struct":
		if vs := g.varsOf(ft.Elem, nil); len(vs) > 0 && g.pick(3, "usevar") > 0 {
			return g.valOfKind("inst", depth, ft.Elem)
		}
		if depth == 0 && g.m.cur[ft.Elem] != nil {
			return g.valOfKind("new", depth, ft.Elem)
		}
	}
	return sVal{K: "nil"}
}

func (g *sGen) genInits(typ string, depth, max int) []sInit {
	d := g.m.cur[typ]
	if d == nil {
		return nil
	}
	var fields []string
	for f := range d.Fields {
		fields = append(fields, f)
	}
	sort.Strings(fields)
	var inits []sInit
	for _, f := range fields {
		if len(inits) >= max || g.pick(3, "skipf") == 0 {
			continue
		}
		if g.pick(14, "badval") == 0 {
			inits = append(inits, sInit{Field: f, Val: g.anyVal(depth)})
		} else {
			inits = append(inits, sInit{Field: f, Val: g.validVal(d.Fields[f], depth)})
		}
	}
	if g.pick(12, "badfield") == 0 {
		// a field this version does not declare (maybe another version does)
		f := rapid.SampledFrom(c17FieldNames).Draw(g.t, "bf")
		if _, declared := d.Fields[f]; !declared {
			inits = append(inits, sInit{Field: f, Val: g.anyVal(depth)})
		}
	}
	if len(inits) > 1 && g.pick(2, "rot") == 0 {
		inits = append(inits[1:], inits[0])
	}
	return inits
}

func (g *sGen) declare() sOp {
	name := rapid.SampledFrom([]string{"A", "B", "C"}).Draw(g.t, "dn")
	if len(g.m.cur) == 0 {
		name = "A"
	} else if len(g.m.cur) < 3 && g.pick(4, "fresh") > 0 {
		for _, n := range []string{"A", "B", "C"} {
			if g.m.cur[n] == nil {
				name = n
				break
			}
		}
	}
	if _, again := g.m.cur[name]; again {
		g.labels["redeclaration"] = true
	}
	o := sOp{Op: "declare", Name: name}
	used := map[string]bool{}
	for i := 0; i < 1+g.pick(4, "nf"); i++ {
		f := rapid.SampledFrom(c17FieldNames).Draw(g.t, "fn")
		if used[f] {
			continue
		}
		used[f] = true
		o.Fields = append(o.Fields, sField{Name: f, T: g.genType(name)})
	}
	return o
}

func (g *sGen) newVar() string {
	g.nvar++
	return fmt.Sprintf("x%d", g.nvar)
}

func (g *sGen) typeNames() []string {
	var names []string
	for n := range g.m.cur {
		names = append(names, n)
	}
	sort.Strings(names)
	return names
}

func (g *sGen) step() sOp {
	if len(g.m.cur) == 0 {
		return g.declare()
	}
	k := g.pick(20, "opk")
	switch {
	case k == 0 || (k == 1 && len(g.m.cur) < 2):
		return g.declare()
	case k <= 5 || len(g.m.vars) == 0:
		typ := rapid.SampledFrom(g.typeNames()).Draw(g.t, "nt")
		return sOp{Op: "new", Var: g.newVar(), Type: typ, Inits: g.genInits(typ, 0, 4)}
	case k == 6:
		src := rapid.SampledFrom(g.allVars()).Draw(g.t, "as")
		return sOp{Op: "alias", Var: g.newVar(), Src: &sVal{K: "inst", Var: src}}
	case k == 7:
		dst := rapid.SampledFrom(g.allVars()).Draw(g.t, "dd")
		var src sVal
		if g.pick(2, "dsrc") == 0 {
			src = g.valOfKind("inst", 0, g.m.vars[dst].Decl.Name)
		} else {
			src = g.anyVal(0)
		}
		g.labels["derefSet"] = true
		return sOp{Op: "derefset", Var: dst, Src: &src}
	case k <= 9:
		typ := rapid.SampledFrom(g.typeNames()).Draw(g.t, "dt")
		route := rapid.SampledFrom([]string{"rawjson", "rawjson-keyorder", "viahash-json", "viahash-msgpack"}).Draw(g.t, "dr")
		var inits []sInit
		for _, in := range g.genInits(typ, 0, 3) {
			if _, ok := in.Val.json(""); ok {
				inits = append(inits, in)
			}
		}
		g.routes["decode:"+route] = true
		return sOp{Op: "decode", Var: g.newVar(), Type: typ, Inits: inits, Route: route}
	}
	// a field write
	vars := g.allVars()
	var nested []string
	for _, v := range vars {
		for _, fv := range g.m.vars[v].F {
			if fv.K == "inst" || fv.K == "pinst" {
				nested = append(nested, v)
				break
			}
		}
	}
	if len(nested) > 0 && g.pick(2, "preferNested") == 0 {
		vars = nested
	}
	x := rapid.SampledFrom(vars).Draw(g.t, "wx")
	in := g.m.vars[x]
	o := sOp{Op: "write", Var: x}
	// two-hop routes when a field holds an instance or a pointer to one
	var instHops, ptrHops []string
	for f, v := range in.F {
		if v.K == "inst" {
			instHops = append(instHops, f)
		}
		if v.K == "pinst" {
			ptrHops = append(ptrHops, f)
		}
	}
	sort.Strings(instHops)
	sort.Strings(ptrHops)
	tgt := in
	switch {
	case len(instHops) > 0 && g.pick(3, "hop") > 0:
		hop := rapid.SampledFrom(instHops).Draw(g.t, "ih")
		o.Path = []string{hop}
		o.Route = rapid.SampledFrom([]string{"infix2", "set2", "hset-dot", "hset-colon"}).Draw(g.t, "r2")
		tgt = in.F[hop].Inst
	case len(ptrHops) > 0 && g.pick(3, "phop") > 0:
		hop := rapid.SampledFrom(ptrHops).Draw(g.t, "ph")
		o.Path = []string{hop}
		o.Route = "ptr-field"
		tgt = in.F[hop].Inst
	default:
		o.Route = rapid.SampledFrom([]string{"hset", "hset", "infix", "infix", "set", "fn-hset", "fn-infix", "deref-hset", "hset-arraykey", "hset-strkey"}).Draw(g.t, "r1")
	}
	var fields []string
	for f := range tgt.Decl.Fields {
		fields = append(fields, f)
	}
	sort.Strings(fields)
	var f string
	var val sVal
	switch g.pick(5, "wkind") {
	case 0:
		// a field this version does not declare (maybe another version does)
		f = rapid.SampledFrom(c17FieldNames).Draw(g.t, "uf")
		val = g.anyVal(0)
	case 1:
		f = rapid.SampledFrom(fields).Draw(g.t, "wf")
		val = g.anyVal(0)
	default:
		f = rapid.SampledFrom(fields).Draw(g.t, "gf")
		val = g.validVal(tgt.Decl.Fields[f], 0)
	}
	o.Path = append(o.Path, f)
	o.Val = &val
	g.routes[o.Route] = true
	if tgt.Decl != g.m.cur[tgt.Decl.Name] {
		g.labels["write-to-instance-of-older-version"] = true
	}
	return o
}

func genStructHistory(t *rapid.T) (structCase, []string, bool) {
	g := &sGen{t: t, m: newSModel(), labels: map[string]bool{}, routes: map[string]bool{}}
	var c structCase
	n := rapid.IntRange(4, 30).Draw(t, "len")
	rejected, richType := 0, false
	for i := 0; i < n; i++ {
		o := g.step()
		verdict, apply := g.m.plan(o)
		// the generator's model assumes zygo takes the permissive branch of "either"
		if verdict != vReject {
			apply()
		} else if o.Op == "write" || o.Op == "new" || o.Op == "decode" || o.Op == "derefset" {
			rejected++
			g.labels["rejected:"+o.Op] = true
		}
		if verdict == vEither {
			g.labels["verdict-either"] = true
		}
		if o.Op == "declare" {
			for _, f := range o.Fields {
				if f.T.K == "slice" || f.T.K == "ptr" || f.T.K == "struct" {
					richType = true
				}
			}
		}
		c.Ops = append(c.Ops, o)
	}
	var labels []string
	for l := range g.labels {
		labels = append(labels, l)
	}
	for r := range g.routes {
		labels = append(labels, "route:"+r)
	}
	sort.Strings(labels)
	nt := len(g.routes) >= 2 && rejected >= 1 && richType
	return c, labels, nt
}

func TestC17(t *testing.T) {
	p := begin(t, "C17")
	r := p.r
	r.SetRule("case = history of 4-30 steps on one interpreter: (struct N [fields]) declarations and REdeclarations of up to 3 names with 1-4 fields over int64 float64 string bool ([]int64) ([]string) ([]float64) (* int64) (* string) (* N) N; constructions (def x (N F: v ..)); field writes through routes {hset, hset with [F:] key, hset with a string key, infix {x.F = v}, (set x.F v), inside a function via hset and via infix, through (* (& x)), two-hop {x.G.F = v}, (set x.G.F v), (hset x.G F: v), (hset (:G x) F: v), through a pointer field (hset (* (:P x)) F: v)}; (derefSet (& x) y); aliases; decoding through unjson of raw JSON (with and without zKeyOrder) and unjson/unmsgpack of an encoded generic hash naming the type; values of every kind (right type, wrong type, nil, [], arrays starting with nil, pointers, instances of the same / another struct / another version, inline constructions, plain hashes), fields declared / undeclared / declared only in another version. Oracle: declaration model with versions (an instance keeps the version current at its creation): must-accept writes succeed, must-reject writes return an error, and after EVERY step every instance reachable from a variable is read back through the Go API (field set, value kinds and values, object identity) and equals the model. Non-trivial: >=2 write routes, >=1 rejected write, and a declared slice/pointer/struct field. Distinct by history text.")
	r.Assume("an array's type is the slice of its first element's type (zygo's own notion): only homogeneous arrays are generated", "element writes into an array held by a field are array operations, not field writes", "type-correct writes must succeed (tests/declare.zy); where the statement is silent (pointer to an instance of another version of the same name; a struct-typed field whose struct was redeclared since) either outcome is accepted but the state must match", "type names get a per-case unique prefix because the type registry is process-global")
	p.rapidSub("history", ev.Scale(3000, 400000), func(t *rapid.T) {
		c, labels, nt := genStructHistory(t)
		r.Count("history", ev.Hash64(c.String()), nt, labels...)
		if nt {
			r.Sample("history", c.String())
		}
		p.report(t, "history", c, checkStructHistory(c))
	})
	p.done()
}
