package props

import (
	"fmt"
	"sort"
	"strings"
	"testing"
	"unicode"

	"pgregory.net/rapid"

	"verif/harness/ev"
)

// C18 — package members are private unless capitalised.
//
// Oracle: a visibility model over a generated tree of packages. Every access
// from outside gets a verdict (allow / deny / either) and, when allowed, the
// model's value; after EVERY access the complete state of every package
// (private members included) is read back through an exported function
// defined inside that package and compared with the model, so a denied
// assignment that changed something, and an allowed one that did not arrive,
// are both seen.

type pkKey struct {
	Name string  `json:"name"`
	I    int64   `json:"i,omitempty"`
	Sub  []pkKey `json:"sub,omitempty"` // nested hash when non-nil
	Hash bool    `json:"hash,omitempty"`
}

type pkMember struct {
	Name string   `json:"name"`
	Kind string   `json:"kind"` // val fn pkg hash
	I    int64    `json:"i,omitempty"`
	Uses string   `json:"uses,omitempty"` // fn: the val member it adds to its argument ("" = none)
	Pkg  *pkNode  `json:"pkg,omitempty"`
	Keys []pkKey  `json:"keys,omitempty"`
	path []string // filled by index()
}

type pkNode struct {
	PkgName string     `json:"pkgname"`
	Members []pkMember `json:"members"`
}

type pkAccess struct {
	Op    string   `json:"op"`    // read call assign
	Route string   `json:"route"` // see renderAccess
	Path  []string `json:"path"`
	Val   int64    `json:"val,omitempty"`
	Cut   int      `json:"cut,omitempty"` // alias routes: number of leading hops folded into the alias
}

type pkCase struct {
	Root     pkNode     `json:"root"`
	Accesses []pkAccess `json:"accesses"`
}

// rendering --------------------------------------------------------------------

func renderKeys(ks []pkKey) string {
	var b strings.Builder
	b.WriteString("(hash")
	for _, k := range ks {
		if k.Hash {
			b.WriteString(" " + k.Name + ": " + renderKeys(k.Sub))
		} else {
			b.WriteString(fmt.Sprintf(" %s: %d", k.Name, k.I))
		}
	}
	b.WriteString(")")
	return b.String()
}

// leaves lists the int cells of a package in a fixed order: (member, key path)
type pkLeaf struct {
	expr string // expression valid INSIDE the package
	dot  string // the same cell as a dot path used as an operand of a builtin, also valid inside the package
	acc  string // the same cell through the colon accessor (:key hash)
	cell *int64
}

func keyLeaves(base string, dotBase string, accBase string, ks []pkKey, out *[]pkLeaf) {
	for i := range ks {
		k := &ks[i]
		e := "(hget " + base + " " + k.Name + ":)"
		d := dotBase + "." + k.Name
		a := "(:" + k.Name + " " + accBase + ")"
		if k.Hash {
			keyLeaves(e, d, a, k.Sub, out)
		} else {
			*out = append(*out, pkLeaf{expr: e, dot: "(+ 0 " + d + ")", acc: a, cell: &k.I})
		}
	}
}

func (n *pkNode) leaves() []pkLeaf {
	var out []pkLeaf
	for i := range n.Members {
		m := &n.Members[i]
		switch m.Kind {
		case "val":
			out = append(out, pkLeaf{expr: m.Name, dot: "(+ 0 " + m.Name + ")", acc: m.Name, cell: &m.I})
		case "hash":
			keyLeaves(m.Name, m.Name, m.Name, m.Keys, &out)
		}
	}
	return out
}

func (n *pkNode) render() string {
	var b strings.Builder
	b.WriteString("(package " + fmt.Sprintf("%q", n.PkgName))
	for _, m := range n.Members {
		switch m.Kind {
		case "val":
			b.WriteString(fmt.Sprintf(" (def %s %d)", m.Name, m.I))
		case "fn":
			if m.Uses != "" {
				b.WriteString(fmt.Sprintf(" (defn %s [a] (+ a %s))", m.Name, m.Uses))
			} else {
				b.WriteString(fmt.Sprintf(" (defn %s [a] (+ a 1000))", m.Name))
			}
		case "hash":
			b.WriteString(" (def " + m.Name + " " + renderKeys(m.Keys) + ")")
		case "pkg":
			b.WriteString(" (def " + m.Name + " " + m.Pkg.render() + ")")
		}
	}
	// the package's own view of all its cells, private ones included
	b.WriteString(" (defn Dump [] (list 0")
	for _, l := range n.leaves() {
		b.WriteString(" " + l.expr)
	}
	b.WriteString("))")
	// the same view through dot paths into the package's own (mostly private) hashes, used as builtin operands
	b.WriteString(" (defn DumpDot [] (list 0")
	for _, l := range n.leaves() {
		b.WriteString(" " + l.dot)
	}
	b.WriteString("))")
	// and through the colon accessor, a builder that evaluates its hash argument itself
	b.WriteString(" (defn DumpAcc [] (list 0")
	for _, l := range n.leaves() {
		b.WriteString(" " + l.acc)
	}
	b.WriteString(")))")
	return b.String()
}

// all packages with the dot path (from the root variable) that reaches them
func (n *pkNode) walk(prefix []string, f func(p *pkNode, path []string)) {
	f(n, prefix)
	for i := range n.Members {
		if n.Members[i].Kind == "pkg" {
			n.Members[i].Pkg.walk(append(append([]string{}, prefix...), n.Members[i].Name), f)
		}
	}
}

func (n *pkNode) member(name string) *pkMember {
	for i := range n.Members {
		if n.Members[i].Name == name {
			return &n.Members[i]
		}
	}
	return nil
}

func renderAccess(a pkAccess, idx int) string {
	dotted := func(root string, path []string) string { return root + "." + strings.Join(path, ".") }
	full := dotted("pk", a.Path)
	use := func(p string) string {
		switch a.Op {
		case "read":
			return "(+ 0 " + p + ")"
		case "call":
			return "(" + p + " 1)"
		}
		return ""
	}
	assign := func(form, p string) string {
		switch form {
		case "set":
			return fmt.Sprintf("(set %s %d)", p, a.Val)
		case "prefix":
			return fmt.Sprintf("(= %s %d)", p, a.Val)
		}
		return fmt.Sprintf("{%s = %d}", p, a.Val)
	}
	al := fmt.Sprintf("al%d", idx)
	rest := a.Path[a.Cut:]
	switch a.Route {
	case "direct":
		return use(full)
	case "rhs-def":
		return fmt.Sprintf("(def y%d %s) (+ 0 y%d)", idx, full, idx)
	case "rhs-set":
		return fmt.Sprintf("(def y%d 0) (set y%d %s) (+ 0 y%d)", idx, idx, full, idx)
	case "rhs-infix":
		return fmt.Sprintf("{y%d := 1 + %s}", idx, full)
	case "alias-value":
		return fmt.Sprintf("(def %s pk) %s", al, use(dotted(al, a.Path)))
	case "alias-let":
		return fmt.Sprintf("(let [%s pk] %s)", al, use(dotted(al, a.Path)))
	case "alias-param":
		return fmt.Sprintf("((fn [%s] %s) pk)", al, use(dotted(al, a.Path)))
	case "alias-symbol":
		// a name bound to the dot path of a nested package
		return fmt.Sprintf("(def %s %s) %s", al, dotted("pk", a.Path[:a.Cut]), use(dotted(al, rest)))
	case "in-hash":
		return fmt.Sprintf("(def %s (hash P: pk)) %s", al, use(dotted(al+".P", a.Path)))
	case "infix", "set", "prefix":
		return assign(a.Route, full)
	case "alias-value-infix":
		return fmt.Sprintf("(def %s pk) %s", al, assign("infix", dotted(al, a.Path)))
	case "alias-let-set":
		return fmt.Sprintf("(let [%s pk] %s)", al, assign("set", dotted(al, a.Path)))
	case "alias-param-infix":
		return fmt.Sprintf("((fn [%s] %s) pk)", al, assign("infix", dotted(al, a.Path)))
	case "alias-symbol-infix":
		return fmt.Sprintf("(def %s %s) %s", al, dotted("pk", a.Path[:a.Cut]), assign("infix", dotted(al, rest)))
	case "in-hash-set":
		return fmt.Sprintf("(def %s (hash P: pk)) %s", al, assign("set", dotted(al+".P", a.Path)))
	}
	return "nil"
}

// model -------------------------------------------------------------------------

const (
	pvAllow = iota
	pvEither
	pvDeny
)

func nameVerdict(name string) int {
	r := []rune(name)[0]
	switch {
	case unicode.IsUpper(r):
		return pvAllow
	case unicode.IsLower(r):
		return pvDeny
	}
	return pvEither // the statement speaks of lower-case and capitalised names only
}

// resolve walks the path from the root package: verdict, the int cell reached (nil if the
// path ends elsewhere), the fn member reached (for calls), and the package owning the last hop
func (c *pkCase) resolve(path []string) (verdict int, cell *int64, fn *pkMember, owner *pkNode, why string) {
	cur := &c.Root
	verdict = pvAllow
	for i := 0; i < len(path); i++ {
		m := cur.member(path[i])
		if m == nil {
			return pvDeny, nil, nil, cur, "no such member"
		}
		last := i == len(path)-1
		switch m.Kind {
		case "pkg":
			if last {
				return pvDeny, nil, nil, cur, "path ends at a package" // not generated
			}
			cur = m.Pkg // nested packages are traversed whatever the case of their name
		case "val":
			if !last {
				return pvDeny, nil, nil, cur, "path goes through a value"
			}
			return maxv(verdict, nameVerdict(m.Name)), &m.I, nil, cur, "member " + m.Name
		case "fn":
			if !last {
				return pvDeny, nil, nil, cur, "path goes through a function"
			}
			return maxv(verdict, nameVerdict(m.Name)), nil, m, cur, "member " + m.Name
		case "hash":
			verdict = maxv(verdict, nameVerdict(m.Name))
			if verdict == pvDeny {
				return pvDeny, nil, nil, cur, "hash member " + m.Name
			}
			ks := m.Keys
			for j := i + 1; j < len(path); j++ {
				var k *pkKey
				for x := range ks {
					if ks[x].Name == path[j] {
						k = &ks[x]
					}
				}
				if k == nil {
					return pvDeny, nil, nil, cur, "no such key"
				}
				// keys inside an exported hash are data; for lower-case keys the statement can be
				// read either way
				if nameVerdict(k.Name) != pvAllow {
					verdict = maxv(verdict, pvEither)
				}
				if j == len(path)-1 {
					if k.Hash {
						return pvDeny, nil, nil, cur, "path ends at a hash"
					}
					return verdict, &k.I, nil, cur, "key " + k.Name + " of hash " + m.Name
				}
				if !k.Hash {
					return pvDeny, nil, nil, cur, "path goes through a value"
				}
				ks = k.Sub
			}
			return pvDeny, nil, nil, cur, "path ends at a hash"
		}
	}
	return pvDeny, nil, nil, cur, "empty"
}

func (n *pkNode) valOf(name string) int64 {
	if m := n.member(name); m != nil {
		return m.I
	}
	return 1000
}

// check --------------------------------------------------------------------------

func (c *pkCase) text() string {
	var b strings.Builder
	b.WriteString("(def pk " + c.Root.render() + ")\n")
	for i, a := range c.Accesses {
		b.WriteString(renderAccess(a, i) + "\n")
	}
	return b.String()
}

func checkPackages(c pkCase) *ev.Failure {
	env := newEnv(envFull)
	defer env.Close()
	setup := "(def pk " + c.Root.render() + ")"
	if r := evalString(env, setup+"\n", 400000); r.Err != nil || r.Panic != "" {
		return &ev.Failure{Sig: "setup", Msg: "the package definition fails: " + setup, Observed: fmt.Sprint(r.Err, r.Panic)}
	}
	// state check through the packages' own Dump functions
	state := func(step string, sig string) *ev.Failure {
		var bad *ev.Failure
		c.Root.walk(nil, func(p *pkNode, path []string) {
			if bad != nil {
				return
			}
			for _, dumpFn := range []string{"Dump", "DumpDot", "DumpAcc"} {
				if bad != nil {
					return
				}
				call := "(pk." + strings.Join(append(append([]string{}, path...), dumpFn), ".") + ")"
				r := evalString(env, call+"\n", 100000)
				want := "(0"
				for _, l := range p.leaves() {
					want += fmt.Sprintf(" %d", *l.cell)
				}
				want += ")"
				if r.Err != nil || r.Panic != "" {
					bad = &ev.Failure{Sig: "inside-access:" + sig, Msg: step + "\nthen the exported function " + call + ", which reads the package's own members, fails", Expected: want, Observed: fmt.Sprint(r.Err, r.Panic)}
					return
				}
				got, _ := printSexp(r.Val)
				if got != want {
					bad = &ev.Failure{Sig: "state:" + sig, Msg: step + "\nthen " + call + " (the package's own view of its members) differs from the model", Expected: want, Observed: got}
				}
			}
		})
		return bad
	}
	if f := state("after the definition", "initial"); f != nil {
		return f
	}
	var done []string
	for i, a := range c.Accesses {
		text := renderAccess(a, i)
		verdict, cell, fn, owner, why := c.resolve(a.Path)
		done = append(done, text)
		sig := a.Op + ":" + a.Route
		where := fmt.Sprintf("%s\nstep %d: %s   [%s; model: %s]", setup, i+1, text, why, []string{"allow", "either", "deny"}[verdict])
		if i > 0 {
			where = fmt.Sprintf("%s\n%s\nstep %d: %s   [%s; model: %s]", setup, strings.Join(done[:i], "\n"), i+1, text, why, []string{"allow", "either", "deny"}[verdict])
		}
		r := evalString(env, text+"\n", 200000)
		if r.Panic != "" {
			return &ev.Failure{Sig: "panic:" + sig, Msg: where + "\na Go panic escapes", Observed: r.Panic}
		}
		failed := r.Err != nil
		if verdict == pvDeny && !failed {
			got, _ := printSexp(r.Val)
			return &ev.Failure{Sig: "private-reached:" + sig, Msg: where + "\nan access the rule forbids reports no error", Expected: "an error", Observed: got}
		}
		if verdict == pvAllow && failed {
			return &ev.Failure{Sig: "public-refused:" + sig, Msg: where + "\nan access to capitalised members only is refused", Expected: "success", Observed: firstLine(r.Err.Error())}
		}
		if !failed {
			var want int64
			switch a.Op {
			case "read":
				want = *cell
				if a.Route == "rhs-infix" {
					want++
				}
			case "call":
				want = 1 + 1000
				if fn.Uses != "" {
					want = 1 + owner.valOf(fn.Uses)
				}
			case "assign":
				want = a.Val
				*cell = a.Val
			}
			got, _ := printSexp(r.Val)
			if got != fmt.Sprint(want) {
				return &ev.Failure{Sig: "value:" + sig, Msg: where + "\nthe access yields another value than the member holds", Expected: fmt.Sprint(want), Observed: got}
			}
		}
		kind := "denied-or-failed"
		if !failed {
			kind = "allowed"
		}
		if f := state(where, kind+":"+sig); f != nil {
			return f
		}
		if d := env.VerifDepths(); d.Data != 0 || d.Scope != 1 || d.Addr != 0 {
			return &ev.Failure{Sig: "not-at-rest:" + sig, Msg: where + "\nleaves the interpreter not at rest", Observed: fmt.Sprintf("%+v", d)}
		}
	}
	return nil
}

var checkPackagesR = reg("C18", "program", checkPackages)

// generator ------------------------------------------------------------------------

var (
	pkValNames  = []string{"Val", "Xy", "Éa", "val", "xy", "éa", "low", "_u"}
	pkFnNames   = []string{"Fn", "Get", "fn2", "get"}
	pkHashNames = []string{"H", "Tab", "h", "tab"}
	pkPkgNames  = []string{"Sub", "Inner", "sub", "inner"}
	pkKeyNames  = []string{"K", "Q", "k", "q"}
	pkNestNames = []string{"N", "n"}
)

type pkGen struct {
	t     *rapid.T
	nextI int64
	npkg  int
}

func (g *pkGen) pick(n int, l string) int { return rapid.IntRange(0, n-1).Draw(g.t, l) }

func (g *pkGen) subset(pool []string, max int, l string) []string {
	var out []string
	for _, n := range pool {
		if len(out) < max && g.pick(2, l) == 1 {
			out = append(out, n)
		}
	}
	return out
}

func (g *pkGen) val() int64 { g.nextI += 3; return g.nextI }

func (g *pkGen) keys(depth int) []pkKey {
	var ks []pkKey
	for _, n := range g.subset(pkKeyNames, 3, "keys") {
		ks = append(ks, pkKey{Name: n, I: g.val()})
	}
	if depth < 2 {
		for _, n := range g.subset(pkNestNames, 1, "nest") {
			ks = append(ks, pkKey{Name: n, Hash: true, Sub: g.keys(depth + 1)})
		}
	}
	if len(ks) == 0 {
		ks = append(ks, pkKey{Name: "K", I: g.val()})
	}
	return ks
}

func (g *pkGen) pkg(depth int) *pkNode {
	g.npkg++
	n := &pkNode{PkgName: fmt.Sprintf("pkg%d", g.npkg)}
	vals := g.subset(pkValNames, 4, "vals")
	if len(vals) == 0 {
		vals = []string{"Val", "val"}
	}
	for _, v := range vals {
		n.Members = append(n.Members, pkMember{Name: v, Kind: "val", I: g.val()})
	}
	for _, f := range g.subset(pkFnNames, 2, "fns") {
		uses := ""
		if g.pick(4, "uses") < 3 {
			uses = vals[g.pick(len(vals), "usesWhich")]
		}
		n.Members = append(n.Members, pkMember{Name: f, Kind: "fn", Uses: uses})
	}
	for _, h := range g.subset(pkHashNames, 2, "hashes") {
		n.Members = append(n.Members, pkMember{Name: h, Kind: "hash", Keys: g.keys(0)})
	}
	if depth < 3 {
		max := 2
		if depth == 2 {
			max = 1
		}
		for _, p := range g.subset(pkPkgNames, max, "pkgs") {
			n.Members = append(n.Members, pkMember{Name: p, Kind: "pkg", Pkg: g.pkg(depth + 1)})
		}
	}
	return n
}

// randomPath walks to a leaf (val, fn, or hash key)
func (g *pkGen) randomPath(root *pkNode) (path []string, kind string, pkgHops int) {
	cur := root
	for {
		m := &cur.Members[g.pick(len(cur.Members), "member")]
		path = append(path, m.Name)
		switch m.Kind {
		case "pkg":
			cur = m.Pkg
			pkgHops++
			continue
		case "val":
			return path, "val", pkgHops
		case "fn":
			return path, "fn", pkgHops
		case "hash":
			ks := m.Keys
			for {
				k := ks[g.pick(len(ks), "key")]
				path = append(path, k.Name)
				if !k.Hash {
					return path, "val", pkgHops
				}
				ks = k.Sub
			}
		}
	}
}

func genPkCase(t *rapid.T) (pkCase, []string, bool) {
	g := &pkGen{t: t}
	c := pkCase{Root: *g.pkg(1)}
	labels := map[string]bool{}
	n := rapid.IntRange(2, 10).Draw(t, "naccess")
	allowed, denied, deep, aliased := 0, 0, 0, 0
	for i := 0; i < n; i++ {
		path, kind, hops := g.randomPath(&c.Root)
		a := pkAccess{Path: path}
		if kind == "fn" {
			a.Op = "call"
			routes := []string{"direct", "direct", "alias-value", "alias-let", "alias-param", "in-hash"}
			if hops > 0 {
				routes = append(routes, "alias-symbol", "alias-symbol")
			}
			a.Route = rapid.SampledFrom(routes).Draw(t, "croute")
		} else if g.pick(2, "rw") == 0 {
			a.Op = "read"
			routes := []string{"direct", "direct", "rhs-def", "rhs-set", "rhs-infix", "alias-value", "alias-let", "alias-param", "in-hash"}
			if hops > 0 {
				routes = append(routes, "alias-symbol", "alias-symbol")
			}
			a.Route = rapid.SampledFrom(routes).Draw(t, "rroute")
		} else {
			a.Op = "assign"
			a.Val = 5000 + int64(i)
			routes := []string{"infix", "infix", "set", "prefix", "alias-value-infix", "alias-let-set", "alias-param-infix", "in-hash-set"}
			if hops > 0 {
				routes = append(routes, "alias-symbol-infix", "alias-symbol-infix")
			}
			a.Route = rapid.SampledFrom(routes).Draw(t, "wroute")
		}
		if strings.HasPrefix(a.Route, "alias-symbol") {
			a.Cut = 1 + g.pick(hops, "cut")
		}
		c.Accesses = append(c.Accesses, a)
		v, _, _, _, _ := c.resolve(path)
		switch v {
		case pvAllow:
			allowed++
		case pvDeny:
			denied++
		default:
			labels["verdict-either"] = true
		}
		if hops >= 1 {
			deep++
		}
		if a.Route != "direct" && a.Route != "infix" && a.Route != "set" && a.Route != "prefix" && !strings.HasPrefix(a.Route, "rhs") {
			aliased++
		}
		labels["route:"+a.Route] = true
		labels[fmt.Sprintf("package-depth:%d", hops+1)] = true
		// private package name on the way
		for _, h := range path[:len(path)-1] {
			if contains(pkPkgNames, h) && nameVerdict(h) == pvDeny {
				labels["through-package-under-lower-case-name"] = true
			}
		}
		if len(path)-hops >= 2 {
			labels["into-hash"] = true
		}
	}
	var ls []string
	for l := range labels {
		ls = append(ls, l)
	}
	sort.Strings(ls)
	nt := allowed >= 1 && denied >= 1 && (deep >= 1 || aliased >= 1)
	return c, ls, nt
}

func TestC18(t *testing.T) {
	p := begin(t, "C18")
	r := p.r
	r.SetRule("case = a generated tree of packages (nesting depth <=3; packages stored under capitalised and lower-case names) whose members are values, functions that use a (mostly private) value of their package, hashes with nested hashes, and nested packages, under names with upper-case (ASCII and non-ASCII), lower-case and non-letter first runes; followed by 2-10 accesses from outside along random paths to a value, function or hash key: reads as operand of a builtin, calls through the dot path, reads on the right-hand side of def / set / infix :=, assignments by infix =, (set ..), prefix (= ..), each also through an alias bound to the package value (def, let, function parameter), through a name bound to the dot path of a nested package, and through a package stored in an outside hash. Oracle: visibility model (every hop naming a non-package member must be capitalised; packages are traversed under any name; non-letter names and lower-case KEYS inside an exported hash: either) -> allowed accesses must succeed with the model's value, denied ones must fail; after EVERY access every package's exported Dump, DumpDot and DumpAcc functions (defined inside; they read all private members, Dump through hget, DumpDot through dot paths used as builtin operands, DumpAcc through the colon accessor) must return the model's state. Non-trivial: >=1 allowed and >=1 denied access, and depth >=2 or an alias route. Distinct by program text.")
	r.Assume("keys inside an exported hash are data: capitalised keys must be readable; for lower-case keys either outcome is accepted", "names whose first rune is not a letter: either outcome is accepted", "a bare dot path evaluates to a symbol that is resolved on use, so every read is observed through a use ((+ 0 path))")
	p.rapidSub("program", ev.Scale(2000, 300000), func(t *rapid.T) {
		c, labels, nt := genPkCase(t)
		text := c.text()
		r.Count("program", ev.Hash64(text), nt, labels...)
		if nt {
			r.Sample("program", text)
		}
		p.report(t, "program", c, checkPackages(c))
	})
	p.done()
}
