package props

import (
	"fmt"
	"strings"
	"testing"

	"github.com/glycerine/zygomys/v9/zygo"
	"pgregory.net/rapid"

	"verif/harness/ev"
)

// C19 — symbols are interned consistently across interpreters sharing a table.
//
// Oracle: a model map name->number built from the history; invariants checked
// after every step: (a) the shared table is injective, (b) every member maps
// every tracked name to the number first assigned to it, (c) a generated symbol
// is not among the names/numbers that existed before the call, (d) script-level
// == and hash lookup agree with name equality.

type symOp struct {
	Op   string `json:"op"`   // intern|gensym|dup|clone|str2sym|sgensym|sgensymp|read|lookalike|slookalike|parse
	M    int    `json:"m"`    // member index (mod number of members)
	Name string `json:"name"` // pool name or prefix
	Of   int    `json:"of"`   // lookalike: whose counter (member index), Off added
	Off  int    `json:"off"`
}

func (o symOp) String() string {
	switch o.Op {
	case "dup", "clone":
		return fmt.Sprintf("%s(%d)", o.Op, o.M)
	case "lookalike", "slookalike":
		return fmt.Sprintf("%s(%d,%s+ctr(%d)+%d)", o.Op, o.M, o.Name, o.Of, o.Off)
	}
	return fmt.Sprintf("%s(%d,%q)", o.Op, o.M, o.Name)
}

type symCase struct {
	Ops []symOp `json:"ops"`
}

func (c symCase) String() string {
	var p []string
	for _, o := range c.Ops {
		p = append(p, o.String())
	}
	return strings.Join(p, " ")
}

func symFail(sig, msg string, exp, obs any) *ev.Failure {
	return &ev.Failure{Sig: sig, Msg: msg, Expected: exp, Observed: obs}
}

func checkSymHistory(c symCase) *ev.Failure {
	root := newEnv(envFull)
	defer root.Close()
	members := []*zygo.Zlisp{root}
	model := map[string]int{} // tracked name -> number
	generated := map[string]bool{}
	var trackedOrder []string

	intern := func(step int, m *zygo.Zlisp, name string, viaScript string) *ev.Failure {
		var sym *zygo.SexpSymbol
		if viaScript == "" {
			if p := safeCall(func() { sym = m.MakeSymbol(name) }); p != "" {
				return symFail("intern-panic", fmt.Sprintf("step %d MakeSymbol(%q) panicked", step, name), "symbol", p)
			}
		} else {
			r := evalString(m, viaScript+"\n", 5000)
			if r.Panic != "" || r.Err != nil {
				return symFail("script-intern-fails", fmt.Sprintf("step %d %s fails", step, viaScript), "symbol", fmt.Sprint(r.Err, r.Panic))
			}
			s, ok := r.Val.(*zygo.SexpSymbol)
			if !ok {
				return symFail("script-intern-type", fmt.Sprintf("step %d %s did not yield a symbol", step, viaScript), "symbol", fmt.Sprintf("%T", r.Val))
			}
			sym = s
		}
		if sym.Name() != name {
			return symFail("intern-name", fmt.Sprintf("step %d interning %q gave a symbol named %q", step, name, sym.Name()), name, sym.Name())
		}
		num := zygo.VerifSymNumber(sym)
		if old, ok := model[name]; ok {
			if old != num {
				return symFail("same-name-different-symbol", fmt.Sprintf("step %d: name %q now has number %d, had %d; history %s", step, name, num, old, c), old, num)
			}
		} else {
			model[name] = num
			trackedOrder = append(trackedOrder, name)
		}
		return nil
	}

	gensym := func(step int, m *zygo.Zlisp, prefix string, viaScript string) *ev.Failure {
		before := root.VerifSymTable()
		usedNums := map[int]string{}
		for n, k := range before {
			usedNums[k] = n
		}
		var sym *zygo.SexpSymbol
		if viaScript == "" {
			if p := safeCall(func() { sym = m.GenSymbol(prefix) }); p != "" {
				return symFail("gensym-panic", fmt.Sprintf("step %d GenSymbol panicked", step), "symbol", p)
			}
		} else {
			// evaluating the script text itself interns names (gensym, the prefix string is not a symbol)
			r := evalString(m, viaScript+"\n", 5000)
			if r.Panic != "" || r.Err != nil {
				return symFail("script-gensym-fails", fmt.Sprintf("step %d %s fails", step, viaScript), "symbol", fmt.Sprint(r.Err, r.Panic))
			}
			s, ok := r.Val.(*zygo.SexpSymbol)
			if !ok {
				return symFail("script-gensym-type", fmt.Sprintf("step %d %s did not yield a symbol", step, viaScript), "symbol", fmt.Sprintf("%T", r.Val))
			}
			sym = s
		}
		name, num := sym.Name(), zygo.VerifSymNumber(sym)
		if _, existed := before[name]; existed {
			what := "an existing symbol"
			if generated[name] {
				what = "an earlier generated symbol"
			}
			return symFail("gensym-not-fresh", fmt.Sprintf("step %d: generated symbol %q equals %s; history %s", step, name, what, c), "a name not in the table", name)
		}
		if other, used := usedNums[num]; used {
			return symFail("gensym-number-reused", fmt.Sprintf("step %d: generated symbol %q got number %d already used by %q", step, name, num, other), "fresh number", num)
		}
		if !strings.HasPrefix(name, prefix) {
			return symFail("gensym-prefix", fmt.Sprintf("step %d: generated symbol %q lacks prefix %q", step, name, prefix), prefix, name)
		}
		generated[name] = true
		model[name] = num
		trackedOrder = append(trackedOrder, name)
		return nil
	}

	invariant := func(step int) *ev.Failure {
		tab := root.VerifSymTable()
		byNum := map[int]string{}
		for name, num := range tab {
			if other, ok := byNum[num]; ok {
				a, b := other, name
				if a > b {
					a, b = b, a
				}
				return symFail("different-names-same-symbol", fmt.Sprintf("after step %d: names %q and %q share number %d; history %s", step, a, b, num, c), "distinct numbers", num)
			}
			byNum[num] = name
		}
		for _, name := range trackedOrder {
			want := model[name]
			if tab[name] != want {
				return symFail("table-drift", fmt.Sprintf("after step %d: table maps %q to %d, first assigned %d", step, name, tab[name], want), want, tab[name])
			}
			for mi, m := range members {
				var got int
				if p := safeCall(func() { got = zygo.VerifSymNumber(m.MakeSymbol(name)) }); p != "" {
					return symFail("intern-panic", "MakeSymbol panicked", "", p)
				}
				if got != want {
					return symFail("member-disagrees", fmt.Sprintf("after step %d: member %d maps %q to %d, others to %d; history %s", step, mi, name, got, want, c), want, got)
				}
			}
		}
		return nil
	}

	scriptEquality := func(step int) *ev.Failure {
		// compare the two most recent tracked names and the first with itself, at script level, on every member
		if len(trackedOrder) < 2 {
			return nil
		}
		a, b := trackedOrder[len(trackedOrder)-1], trackedOrder[len(trackedOrder)-2]
		for mi, m := range members {
			m.AddGlobal("symA", m.MakeSymbol(a))
			m.AddGlobal("symA2", members[(mi+1)%len(members)].MakeSymbol(a))
			m.AddGlobal("symB", m.MakeSymbol(b))
			r := evalString(m, "(list (== symA symA2) (== symA symB) (hget (hash symA 1) symA2 0) (hget (hash symA 1) symB 0))\n", 5000)
			if r.Panic != "" || r.Err != nil {
				return symFail("script-eq-fails", fmt.Sprintf("after step %d: equality script fails on member %d", step, mi), "", fmt.Sprint(r.Err, r.Panic))
			}
			got, _ := printSexp(r.Val)
			if got != "(true false 1 0)" {
				return symFail("script-eq-wrong", fmt.Sprintf("after step %d on member %d: (== a a') (== a b) hash-lookups for a=%q b=%q; history %s", step, mi, a, b, c), "(true false 1 0)", got)
			}
		}
		return nil
	}

	for step, o := range c.Ops {
		m := members[o.M%len(members)]
		var f *ev.Failure
		switch o.Op {
		case "intern":
			f = intern(step, m, o.Name, "")
		case "str2sym":
			f = intern(step, m, o.Name, fmt.Sprintf("(str2sym %q)", o.Name))
		case "read":
			f = intern(step, m, o.Name, fmt.Sprintf("(read %q)", o.Name+"\n"))
		case "parse":
			f = intern(step, m, o.Name, fmt.Sprintf("(quote %s)", o.Name))
		case "gensym":
			f = gensym(step, m, o.Name, "")
		case "sgensym":
			f = gensym(step, m, "__gensym", "(gensym)")
		case "sgensymp":
			f = gensym(step, m, o.Name, fmt.Sprintf("(gensym %q)", o.Name))
		case "lookalike", "slookalike":
			of := members[o.Of%len(members)]
			name := fmt.Sprintf("%s%d", o.Name, of.VerifNextSymbol()+o.Off)
			if o.Op == "lookalike" {
				f = intern(step, m, name, "")
			} else {
				f = intern(step, m, name, fmt.Sprintf("(str2sym %q)", name))
			}
		case "dup":
			if len(members) < 4 {
				members = append(members, m.Duplicate())
			}
		case "clone":
			if len(members) < 4 {
				members = append(members, m.Clone())
			}
		}
		if f != nil {
			return f
		}
		if f = invariant(step); f != nil {
			return f
		}
		if f = scriptEquality(step); f != nil {
			return f
		}
	}
	return nil
}

var checkSymHistoryR = reg("C19", "history", checkSymHistory)

func symNonTrivial(c symCase) (bool, []string) {
	nmem := 1
	dupAt := -1
	createdIn := map[int]bool{}
	lookalikeSeen := false
	nt := false
	var labels []string
	seen := map[string]bool{}
	add := func(l string) {
		if !seen[l] {
			seen[l] = true
			labels = append(labels, l)
		}
	}
	for i, o := range c.Ops {
		m := o.M % nmem
		switch o.Op {
		case "dup", "clone":
			if nmem < 4 {
				nmem++
				if dupAt < 0 {
					dupAt = i
				}
				createdIn = map[int]bool{}
				add(o.Op)
			}
		case "lookalike", "slookalike":
			lookalikeSeen = true
			add("lookalike-interned")
			if dupAt >= 0 {
				createdIn[m] = true
			}
		case "gensym", "sgensym", "sgensymp":
			if lookalikeSeen {
				nt = true
				add("gensym-after-lookalike")
			}
			if dupAt >= 0 {
				createdIn[m] = true
			}
			add("gensym")
		default:
			if dupAt >= 0 {
				createdIn[m] = true
			}
		}
		if len(createdIn) >= 2 {
			nt = true
			add("creations-in-two-members-after-dup")
		}
	}
	return nt, labels
}

func TestC19(t *testing.T) {
	p := begin(t, "C19")
	r := p.r
	r.SetRule("case = history of symbol creation (MakeSymbol, str2sym, read, parsing a quoted name), symbol generation (GenSymbol, (gensym), (gensym prefix)), Duplicate and Clone over a family of up to 4 interpreters sharing one table; names include look-alikes prefix+<a member's gensym counter>+{0..2} computed from the live counters. After every step: table injective, every member agrees with the first number of every tracked name, generated symbols not in the pre-call table (name or number), script-level == and hash lookup agree with name equality. Generated (1) exhaustively: all sequences up to length L over a 12-operation alphabet, (2) rapid sequences up to length 60. Non-trivial: a duplicate/clone followed by creations in two different members, or a gensym after a look-alike was interned. Distinct by operation sequence.")

	alphabet := []symOp{
		{Op: "dup", M: 0}, {Op: "clone", M: 0},
		{Op: "intern", M: 0, Name: "x"}, {Op: "str2sym", M: 1, Name: "x"},
		{Op: "gensym", M: 0, Name: "__gensym"}, {Op: "gensym", M: 1, Name: "__gensym"},
		{Op: "sgensym", M: 0}, {Op: "sgensym", M: 1},
		{Op: "lookalike", M: 0, Name: "__gensym", Of: 0, Off: 0}, {Op: "lookalike", M: 0, Name: "__gensym", Of: 1, Off: 0},
		{Op: "slookalike", M: 1, Name: "__gensym", Of: 0, Off: 1}, {Op: "lookalike", M: 1, Name: "__gensym", Of: 1, Off: 0},
	}
	L := 3
	if ev.Thorough() {
		L = 5
	}
	var count int64
	idx := 0
	for n := 1; n <= L; n++ {
		idxs := make([]int, n)
		for {
			idx++
			if idx%ev.NShards() == ev.Shard() {
				c := symCase{}
				for _, i := range idxs {
					c.Ops = append(c.Ops, alphabet[i])
				}
				nt, labels := symNonTrivial(c)
				f := checkSymHistory(c)
				r.Count("exhaustive", ev.Hash64(c.String()), nt, append(labels, "exhaustive")...)
				if nt {
					r.Sample("exhaustive", c.String())
				}
				count++
				p.reportEnum("history", c, f)
			}
			j := n - 1
			for j >= 0 {
				idxs[j]++
				if idxs[j] < len(alphabet) {
					break
				}
				idxs[j] = 0
				j--
			}
			if j < 0 {
				break
			}
		}
	}
	r.ExhaustiveSpace(fmt.Sprintf("all sequences of length<=%d over the 12-operation alphabet (sharded)", L), count)

	names := []string{"x", "y", "zed", "p12", "__gensym7", "a"}
	prefixes := []string{"__gensym", "p", "__anon", "__loop"}
	p.rapidSub("history", ev.Scale(2500, 400000), func(t *rapid.T) {
		n := rapid.IntRange(1, 60).Draw(t, "len")
		var c symCase
		for i := 0; i < n; i++ {
			op := rapid.SampledFrom([]string{"intern", "str2sym", "read", "parse", "gensym", "gensym", "sgensym", "sgensymp", "lookalike", "slookalike", "dup", "clone"}).Draw(t, "op")
			o := symOp{Op: op, M: rapid.IntRange(0, 3).Draw(t, "m")}
			switch op {
			case "intern", "str2sym", "read", "parse":
				o.Name = rapid.SampledFrom(names).Draw(t, "name")
			case "gensym", "sgensymp", "lookalike", "slookalike":
				o.Name = rapid.SampledFrom(prefixes).Draw(t, "prefix")
				o.Of = rapid.IntRange(0, 3).Draw(t, "of")
				o.Off = rapid.IntRange(0, 2).Draw(t, "off")
			}
			c.Ops = append(c.Ops, o)
		}
		nt, labels := symNonTrivial(c)
		r.Count("random", ev.Hash64(c.String()), nt, append(labels, "random")...)
		if nt {
			r.Sample("random", c.String())
		}
		p.report(t, "history", c, checkSymHistory(c))
	})
	p.done()
}
