package props

import (
	"bufio"
	"encoding/json"
	"fmt"
	"os"
	"os/exec"
	"path/filepath"
	"regexp"
	"sort"
	"strings"
	"sync/atomic"
	"testing"
	"time"

	"github.com/glycerine/zygomys/v9/zygo"
	"pgregory.net/rapid"

	"verif/harness/ev"
)

// C20 — evaluation is deterministic.
//
// Oracle: repetition. The same program text is run in N fresh interpreters of
// this process (every Go map walk gets a new order each time), once more after
// other interpreters have been created, used for unrelated work and dropped,
// and in fresh child processes; value, error text, (trace ..) outputs and (in
// child processes) the captured standard output must be identical.

type c20Case struct {
	Family string            `json:"family"`
	Text   string            `json:"text"`
	Noise  string            `json:"noise,omitempty"` // run in another interpreter between the runs under comparison
	Raws   map[string][]byte `json:"raws,omitempty"`
	Times  map[string]int64  `json:"times,omitempty"`
}

func c20Env(c c20Case, trace *[]string) *zygo.Zlisp {
	c10Register()
	env := newEnv(envFull)
	for g, raw := range c.Raws {
		env.AddGlobal(g, &zygo.SexpRaw{Val: raw})
	}
	for g, unix := range c.Times {
		env.AddGlobal(g, &zygo.SexpTime{Tm: time.Unix(unix, 0).UTC()})
	}
	env.AddFunction("trace", func(env *zygo.Zlisp, name string, a []zygo.Sexp) (zygo.Sexp, error) {
		if len(a) != 1 {
			return zygo.SexpNull, fmt.Errorf("trace takes one argument")
		}
		s, _ := printSexp(a[0])
		*trace = append(*trace, s)
		return a[0], nil
	})
	return env
}

// observe runs the program in a fresh interpreter and renders everything observable
func c20Observe(c c20Case) string {
	var trace []string
	env := c20Env(c, &trace)
	defer env.Close()
	r := evalString(env, c.Text+"\n", 400000)
	var b strings.Builder
	switch {
	case r.Panic != "":
		b.WriteString("PANIC " + firstLine(r.Panic))
	case r.Budget:
		b.WriteString("BUDGET")
	case r.Err != nil:
		// a recovered Go panic carries the runtime's stack dump (goroutine ids, heap addresses)
		// after the message: diagnostic output, compared up to that marker
		msg := r.Err.Error()
		if i := strings.Index(msg, "\n stack trace:\n"); i >= 0 {
			msg = msg[:i] + " [stack trace cut]"
		}
		b.WriteString("ERROR " + msg)
	default:
		s, p := printSexp(r.Val)
		b.WriteString("VALUE " + s + p)
	}
	for _, t := range trace {
		b.WriteString("\nTRACE " + t)
	}
	return b.String()
}

// noise: unrelated work done in other interpreters before the run under test
var c20seq int64

var c20Noise = []string{
	`(struct NoiseA# [(field Id: int64) (field Nm: string)]) (def n (NoiseA# Id: 1)) (str n) (type? [n]) (& n)`,
	`(def h (hash a: 1 b: 2 c: [1 2 3])) (json h) (gensym) (gensym "p") (type? [1.5]) (type? ["s"])`,
	`(unjson (raw "{\"Atype\":\"NoiseB#\", \"x\":1, \"y\":{\"z\":2}}")) (unjson (raw "{\"Atype\":\"first\", \"x\":1}"))`,
	`(defmac nm [a] ^(+ ~a 1)) (nm 2) (defn nf [x] (cond (< x 1) 0 (nf (- x 1)))) (nf 20)`,
	`(def s (str2sym "freshsym")) (def l (list 1 2 3)) (map (fn [x] (* x x)) [1 2 3])`,
	`(def pkn (package "noisepkg" (def Pub 1) (def priv 2))) (+ pkn.Pub 1)`,
}

func c20DiffLine(a, b string) string {
	la, lb := strings.Split(a, "\n"), strings.Split(b, "\n")
	for i := 0; i < len(la) || i < len(lb); i++ {
		var x, y string
		if i < len(la) {
			x = la[i]
		}
		if i < len(lb) {
			y = lb[i]
		}
		if x != y {
			return fmt.Sprintf("line %d: %q vs %q", i+1, clip(x, 300), clip(y, 300))
		}
	}
	return ""
}

func clip(s string, n int) string {
	if len(s) > n {
		return s[:n] + "..."
	}
	return s
}

// c20Class: a coarse description of where two outputs differ (failure signature)
var c20GenName = regexp.MustCompile(`__(anon|gensym)[0-9]+`)

func c20Class(a, b string) string {
	d := c20DiffLine(a, b)
	if c20GenName.ReplaceAllString(a, "__gen#") == c20GenName.ReplaceAllString(b, "__gen#") {
		// the outputs differ only in the number inside a generated name
		return "generated-name-number"
	}
	switch {
	case strings.Contains(d, "0xc"):
		return "address-in-output"
	case strings.Contains(d, "ERROR") && strings.Contains(d, "VALUE"):
		return "error-vs-value"
	case strings.Contains(d, "ERROR"):
		return "error-text"
	case strings.Contains(d, "TRACE"):
		return "trace"
	case strings.Contains(d, "VALUE"):
		return "value"
	}
	return "other"
}

func c20Sig(family, stage, class string) string {
	if class == "generated-name-number" {
		// one root cause whatever the program: the numbering of generated names starts after the
		// symbols of all types in the process-global registry
		return "generated-name-number-depends-on-process-registry"
	}
	return family + ":" + stage + ":" + class
}

func c20Runs() int {
	if ev.Thorough() {
		return 12
	}
	return 6
}

func checkDeterministic(c c20Case) *ev.Failure {
	first := c20Observe(c)
	for i := 1; i < c20Runs(); i++ {
		again := c20Observe(c)
		if again != first {
			return &ev.Failure{Sig: c20Sig(c.Family, "repeat", c20Class(first, again)), Msg: fmt.Sprintf("run %d in a fresh interpreter differs from run 1 (%s)\nprogram:\n%s", i+1, c20DiffLine(first, again), c.Text), Expected: first, Observed: again}
		}
	}
	// after other interpreters did unrelated work (with type names never seen before in this process)
	seq := atomic.AddInt64(&c20seq, 1)
	noise := append([]string{}, c20Noise...)
	if c.Noise != "" {
		noise = append(noise, c.Noise)
	}
	for k, n := range noise {
		var tr []string
		e := c20Env(c20Case{}, &tr)
		evalString(e, strings.ReplaceAll(n, "#", fmt.Sprint(seq))+"\n", 100000)
		if k%2 == 0 {
			e.Close()
		}
	}
	after := c20Observe(c)
	if after != first {
		return &ev.Failure{Sig: c20Sig(c.Family, "after-other-interpreters", c20Class(first, after)), Msg: fmt.Sprintf("the run after other interpreters were created and used differs (%s)\nprogram:\n%s", c20DiffLine(first, after), c.Text), Expected: first, Observed: after}
	}
	return nil
}

var checkDeterministicR = reg("C20", "repeat", checkDeterministic)

// child processes ------------------------------------------------------------------

type c20Spec struct {
	Cases []c20Case `json:"cases"`
}

type c20ChildOut struct {
	I      int    `json:"i"`
	Obs    string `json:"obs"`
	Stdout string `json:"stdout"`
}

func TestC20Child(t *testing.T) {
	specPath := os.Getenv("VERIF_C20_SPEC")
	if specPath == "" {
		t.Skip("child mode only")
	}
	raw, err := os.ReadFile(specPath)
	if err != nil {
		t.Fatal(err)
	}
	var spec c20Spec
	if err := json.Unmarshal(raw, &spec); err != nil {
		t.Fatal(err)
	}
	out, err := os.Create(specPath + ".out")
	if err != nil {
		t.Fatal(err)
	}
	defer out.Close()
	w := bufio.NewWriter(out)
	capPath := specPath + ".stdout"
	realStdout := os.Stdout
	for i, c := range spec.Cases {
		f, _ := os.Create(capPath)
		os.Stdout = f
		obs := c20Observe(c)
		os.Stdout = realStdout
		f.Close()
		so, _ := os.ReadFile(capPath)
		b, _ := json.Marshal(c20ChildOut{I: i, Obs: obs, Stdout: string(so)})
		w.Write(b)
		w.WriteString("\n")
		w.Flush()
	}
	os.Remove(capPath)
}

func c20RunChildren(t *testing.T, p *propRun, scratch string, cases []c20Case, inproc []string, nproc int) {
	r := p.r
	self := os.Getenv("VERIF_SELF")
	if self == "" {
		self, _ = os.Executable()
	}
	specPath := filepath.Join(scratch, fmt.Sprintf("c20spec-%d.json", ev.Shard()))
	b, _ := json.Marshal(c20Spec{Cases: cases})
	os.WriteFile(specPath, b, 0o644)
	defer os.Remove(specPath)
	var outs [][]c20ChildOut
	for k := 0; k < nproc; k++ {
		os.Remove(specPath + ".out")
		cmd := exec.Command(self, "-test.run", "^TestC20Child$", "-test.timeout", "600s")
		cmd.Env = append(os.Environ(), "VERIF_C20_SPEC="+specPath)
		done := make(chan error, 1)
		cmd.Start()
		go func() { done <- cmd.Wait() }()
		select {
		case <-done:
		case <-time.After(580 * time.Second):
			cmd.Process.Kill()
			<-done
		}
		var res []c20ChildOut
		if f, err := os.Open(specPath + ".out"); err == nil {
			sc := bufio.NewScanner(f)
			sc.Buffer(make([]byte, 8<<20), 8<<20)
			for sc.Scan() {
				var o c20ChildOut
				if json.Unmarshal(sc.Bytes(), &o) == nil {
					res = append(res, o)
				}
			}
			f.Close()
		}
		os.Remove(specPath + ".out")
		if len(res) != len(cases) {
			r.Inconclusive(fmt.Sprintf("child process %d returned %d of %d results", k, len(res), len(cases)))
			return
		}
		outs = append(outs, res)
	}
	for i, c := range cases {
		nt := true
		r.Count("processes", ev.Hash64("proc", c.Text), nt, "family:"+c.Family, fmt.Sprintf("processes:%d", nproc))
		var f *ev.Failure
		for k := 0; k < nproc && f == nil; k++ {
			o := outs[k][i]
			if o.Obs != inproc[i] {
				f = &ev.Failure{Sig: c20Sig(c.Family, "process", c20Class(inproc[i], o.Obs)), Msg: fmt.Sprintf("a fresh process gives another result than this process (%s)\nprogram:\n%s", c20DiffLine(inproc[i], o.Obs), c.Text), Expected: inproc[i], Observed: o.Obs}
			} else if o.Stdout != outs[0][i].Stdout {
				f = &ev.Failure{Sig: c.Family + ":process-stdout", Msg: fmt.Sprintf("two fresh processes print different output (%s)\nprogram:\n%s", c20DiffLine(outs[0][i].Stdout, o.Stdout), c.Text), Expected: outs[0][i].Stdout, Observed: o.Stdout}
			}
		}
		p.reportEnum("processes", c, f)
	}
}

func checkDeterministicProc(c c20Case) *ev.Failure {
	// replay of a cross-process failure: in-process observation against two child processes
	scratch, err := os.MkdirTemp("", "c20r")
	if err != nil {
		return nil
	}
	defer os.RemoveAll(scratch)
	self, _ := os.Executable()
	specPath := filepath.Join(scratch, "spec.json")
	b, _ := json.Marshal(c20Spec{Cases: []c20Case{c}})
	os.WriteFile(specPath, b, 0o644)
	want := c20Observe(c)
	var firstStdout string
	for k := 0; k < 3; k++ {
		cmd := exec.Command(self, "-test.run", "^TestC20Child$", "-test.timeout", "120s")
		cmd.Env = append(os.Environ(), "VERIF_C20_SPEC="+specPath)
		cmd.Run()
		raw, _ := os.ReadFile(specPath + ".out")
		var o c20ChildOut
		if json.Unmarshal([]byte(firstLine(string(raw))), &o) != nil {
			return nil
		}
		if o.Obs != want {
			return &ev.Failure{Sig: c20Sig(c.Family, "process", c20Class(want, o.Obs)), Msg: "a fresh process gives another result: " + c20DiffLine(want, o.Obs) + "\nprogram:\n" + c.Text, Expected: want, Observed: o.Obs}
		}
		if k == 0 {
			firstStdout = o.Stdout
		} else if o.Stdout != firstStdout {
			return &ev.Failure{Sig: c.Family + ":process-stdout", Msg: "two fresh processes print different output\nprogram:\n" + c.Text, Expected: firstStdout, Observed: o.Stdout}
		}
	}
	return nil
}

var checkDeterministicProcR = reg("C20", "processes", checkDeterministicProc)

// program families -------------------------------------------------------------------

var c20Keys = []string{"a:", "b:", "zeta:", "Alpha:", `"s1"`, `"s2"`, `"Zed"`, "1", "2", "10", "-3", "k9:", `"a"`}

func genHashProgram(t *rapid.T) string {
	var b strings.Builder
	b.WriteString("(def h (hash))\n")
	n := rapid.IntRange(1, 9).Draw(t, "nk")
	for i := 0; i < n; i++ {
		k := rapid.SampledFrom(c20Keys).Draw(t, "k")
		switch rapid.IntRange(0, 6).Draw(t, "hop") {
		case 0:
			b.WriteString("(hdel h " + k + ")\n")
		case 1:
			b.WriteString(fmt.Sprintf("(hset h %s (hash x: %d y: [1 2] %s 3))\n", k, i, rapid.SampledFrom(c20Keys).Draw(t, "k2")))
		default:
			b.WriteString(fmt.Sprintf("(hset h %s %d)\n", k, i))
		}
	}
	outs := []string{
		"(trace (str h))", "(trace (raw2str (json h)))", "(trace (keys h))", "(trace (len h))",
		"(range k v h (trace k) (trace v))", "(trace (str (unjson (json h))))", "(trace (str (unmsgpack (msgpack h))))",
		"(trace (str (msgpack h)))", "(trace (hpair h 0))", "(togo h)", "(println h)", "(printf \"%v\\n\" (str h))",
	}
	for i := 0; i < rapid.IntRange(2, 6).Draw(t, "nout"); i++ {
		b.WriteString(rapid.SampledFrom(outs).Draw(t, "out") + "\n")
	}
	// decoding objects whose member order is arbitrary
	if rapid.Bool().Draw(t, "decode") {
		keys := []string{"q", "b", "Zz", "a1", "m", "c"}
		var parts []string
		for _, k := range keys {
			if rapid.Bool().Draw(t, "jk") {
				if rapid.IntRange(0, 3).Draw(t, "nested") == 0 {
					parts = append(parts, fmt.Sprintf(`\"%s\":{\"y\":1,\"x\":[1,2],\"w\":null}`, k))
				} else {
					parts = append(parts, fmt.Sprintf(`\"%s\":%d`, k, len(parts)))
				}
			}
		}
		if len(parts) >= 3 && rapid.Bool().Draw(t, "partialKeyOrder") {
			// a zKeyOrder that lists only some of the members (and maybe a name that is not there)
			var listed []string
			for _, k := range keys {
				if strings.Contains(strings.Join(parts, ","), `\"`+k+`\":`) && rapid.IntRange(0, 2).Draw(t, "listed") == 0 {
					listed = append(listed, `\"`+k+`\"`)
				}
			}
			if rapid.IntRange(0, 3).Draw(t, "ghost") == 0 {
				listed = append(listed, `\"ghost\"`)
			}
			parts = append(parts, `\"zKeyOrder\":[`+strings.Join(listed, ",")+`]`)
		}
		b.WriteString("(def d (unjson (raw \"{" + strings.Join(parts, ",") + "}\")))\n(trace (str d)) (trace (keys d)) (trace (raw2str (json d)))\n")
	}
	return b.String()
}

func genRecordProgram(t *rapid.T) string {
	var b strings.Builder
	fields := []string{"Id: int64", "Nm: string", "Ok: bool", "Wt: float64", "Sl: ([]string)", "Ns: ([]int64)"}
	var fs []string
	for _, f := range fields {
		if rapid.Bool().Draw(t, "f") {
			fs = append(fs, f)
		}
	}
	if len(fs) == 0 {
		fs = fields[:2]
	}
	b.WriteString("(struct DetRec [")
	for _, f := range fs {
		b.WriteString("(field " + f + ") ")
	}
	b.WriteString("])\n")
	vals := map[string][]string{"Id": {"1", "nil", `"bad"`}, "Nm": {`"n"`, "7"}, "Ok": {"true", "3"}, "Wt": {"1.5", "2"}, "Sl": {`["a" "b"]`, "[]", "[1]"}, "Ns": {"[1 2]", `["x"]`}}
	b.WriteString("(def r (DetRec")
	for _, f := range fs {
		name := f[:strings.Index(f, ":")]
		if rapid.IntRange(0, 3).Draw(t, "init") > 0 {
			v := vals[name][0]
			if rapid.IntRange(0, 7).Draw(t, "badv") == 0 {
				v = rapid.SampledFrom(vals[name]).Draw(t, "v")
			}
			b.WriteString(" " + name + ": " + v)
		}
	}
	b.WriteString("))\n")
	outs := []string{"(trace (str r))", "(trace (raw2str (json r)))", "(trace (str (unjson (json r))))", "(trace (keys r))", "(trace (str DetRec))", "(trace (type? r))",
		"(hset r Zork: 1)", "(hset r Id: \"x\")", "(trace (str (unmsgpack (msgpack r))))", "(println r)", "(togo r) (trace (str r))"}
	for i := 0; i < rapid.IntRange(2, 6).Draw(t, "nout"); i++ {
		b.WriteString(rapid.SampledFrom(outs).Draw(t, "out") + "\n")
	}
	return b.String()
}

func genGoStructProgram(t *rapid.T) c20Case {
	rd := &c10Render{globals: map[string]zygo.Sexp{}, shuffle: rapid.Uint64Min(1).Draw(t, "shuffle"), shared: map[*C10Leaf]string{}}
	var src string
	switch rapid.IntRange(0, 2).Draw(t, "gk") {
	case 0:
		top, _ := genTop(t)
		src = rd.top(top)
	case 1:
		src = rd.mid(genMid(t))
	default:
		src = rd.leaf(genLeaf(t))
	}
	c := c20Case{Family: "gostruct"}
	c.Raws, c.Times = c10Globals(rd)
	var b strings.Builder
	b.WriteString("(def r " + src + ")\n")
	outs := []string{"(trace (str r))", "(trace (raw2str (json r)))", "(togo r) (trace (str r))", "(trace (str (unjson (json r))))", "(trace (keys r))",
		"(def obj (c10top id: 1)) (trace (str (aget (_method obj Self:) 0)))", "(trace (str (_method r Tag:)))", "(trace (str (_fields r)))", "(trace (str (_methods r)))", "(println r)"}
	for i := 0; i < rapid.IntRange(2, 5).Draw(t, "nout"); i++ {
		b.WriteString(rapid.SampledFrom(outs).Draw(t, "out") + "\n")
	}
	c.Text = b.String()
	return c
}

// ill-typed calls: the error text is part of what must be reproducible
var c20ArgPool = []string{"1", "-2", "1.5", `"s"`, "[1 2]", "[]", "(hash a: 1)", "nil", "(quote sym)", "(quote len)", "(quote first)", "(quote hset)", "(quote defmac)", "(quote now)", "[(quote cons) (quote append) (quote aget)]", "(hash len: 1 first: 2 cons: 3 aget: 4)", "(list 1 2)", "true", "(fn [x] x)", "#c", "(raw \"ab\")", "0", "(hash)"}

var c20Excluded = map[string]bool{
	// explicitly random, time, or pointer-printing; process-global by documentation; or outside world
	"random": true, "now": true, "timeit": true, "sleep": true, "&": true, "*": true, "deref": true, "derefSet": true,
	"_ls": true, "_closdump": true, "typelist": true, "gensym": false, "millis": true, "randomf": true, "randomi": true,
	"exit": true, "readline": true, "input": true, "source": true, "sys": true, "system": true, "import": true, "req": true,
	"makeChan": true, "send": true, "<!": true, "go": true, "stop": true, "nanos": true, "timef": true, "astm": true,
	"writef": true, "owritef": true, "save": true, "bsave": true, "slurpf": true, "readf": true, "bload": true, "greenpack": true,
	"setenv": true, "getenv": true, "flatten": false, "snoopy": true, "defmap": false, "stackdump": true, "vmstack": true, "debug": true, "undebug": true,
	"showGlobalScope": true, "_sym": true, "dump": true, "inspect": true, "sexpToGoStructs": false,
}

func c20CallableNames() []string {
	env := newEnv(envFull)
	defer env.Close()
	var names []string
	for _, n := range env.VerifGlobalNames() {
		if c20Excluded[n] || strings.ContainsAny(n, "()[]{}\"'`;~%^ ") || strings.HasPrefix(n, "c10") || strings.HasPrefix(n, "Zq") || strings.HasPrefix(n, "Noise") || strings.HasPrefix(n, "DetRec") {
			continue
		}
		names = append(names, n)
	}
	for _, n := range env.VerifBuiltinNames() {
		if !c20Excluded[n] && !contains(names, n) {
			names = append(names, n)
		}
	}
	sort.Strings(names)
	return names
}

func genCallProgram(t *rapid.T, names []string) string {
	var b strings.Builder
	for i := 0; i < rapid.IntRange(1, 3).Draw(t, "ncalls"); i++ {
		name := rapid.SampledFrom(names).Draw(t, "fn")
		call := "(" + name
		for j := 0; j < rapid.IntRange(0, 3).Draw(t, "nargs"); j++ {
			call += " " + rapid.SampledFrom(c20ArgPool).Draw(t, "arg")
		}
		call += ")"
		if rapid.Bool().Draw(t, "traced") {
			call = "(trace " + call + ")"
		}
		b.WriteString(call + "\n")
	}
	return b.String()
}

func TestC20(t *testing.T) {
	p := begin(t, "C20")
	r := p.r
	r.SetRule("case = program text from one of the families {core: programs of the type-directed generator used for C02; hash: hset/hdel histories over symbol, string and int keys followed by str / json / msgpack / keys / range / hpair / togo / println of the hash and decoding of JSON objects with arbitrary member order, with and without a zKeyOrder that lists only some members; record: a struct declaration with instances, json/msgpack round trips, rejected writes; gostruct: records of the registered Go struct types (nested, embedded, interface fields) with json, togo, _method, _fields, _methods; package: package trees with outside accesses (C18 generator); undeclared-struct: use of a struct name (also names of builtins: first, field) that only another interpreter declares between the runs, declarations of own structs, generated names, defmap of such a name; typed-call: a typed func called with named arguments containing 0-5 correct, wrongly typed, duplicate and unknown names; symbols: symbol numbers and symbol order of the names an interpreter is born with; call: 1-3 calls of any global or builtin function with 0-3 arguments from a pool of 16 values of all kinds (mostly ill-typed: the ERROR TEXT is the output)}. repeat: the text is run in 6 (thorough 12) fresh interpreters of this process and once more after 6 other interpreters were created and did unrelated work (struct declarations, gensym, decoding, macros, packages): value or error text and all (trace ..) outputs must be identical. processes: the same texts are run in 3 (thorough 5) fresh child processes: same result as in this process, and the captured standard output identical between processes. corpus: every tests/*.zy script is run 3 (thorough 6) times by the real command line tool: identical output and exit status. Non-trivial: the output passes through a hash, record, registry or scope walk (families hash, record, gostruct, package) or is an error text. Distinct by program text.")
	r.Assume("explicitly random, time and pointer-printing functions are excluded by name (random, now, timeit, &, *, deref, _ls, _closdump, typelist, printf with %p / %#v, the display string returned by togo, which is Go's %#v rendering of the struct; corpus scripts timeit.zy and infixMixHashArray.zy which print %#v)", "the Go stack dump that follows the message of a recovered panic in an error text (goroutine ids, addresses) is cut at its marker", "the other interpreters' struct and record names are new in the process for every case (numbered)")
	scratch := os.Getenv("VERIF_SCRATCH")
	if scratch == "" {
		var err error
		scratch, err = os.MkdirTemp("", "c20")
		if err != nil {
			t.Fatal(err)
		}
		defer os.RemoveAll(scratch)
	}
	names := c20CallableNames()
	r.SetExtra("callable_names", len(names))
	var forProcs []c20Case
	var forProcsObs []string
	nProcCases := ev.Scale(240, 24000)
	p.rapidSub("repeat", ev.Scale(900, 120000), func(t *rapid.T) {
		fam := rapid.SampledFrom([]string{"core", "hash", "hash", "record", "gostruct", "gostruct", "package", "call", "call", "call", "undeclared-struct", "symbols", "typed-call"}).Draw(t, "family")
		c := c20Case{Family: fam}
		switch fam {
		case "core":
			g := newGen(t, c02Cfg)
			c.Text = RenderProgram(g.program())
		case "hash":
			c.Text = genHashProgram(t)
		case "record":
			c.Text = genRecordProgram(t)
		case "gostruct":
			c = genGoStructProgram(t)
		case "package":
			pc, _, _ := genPkCase(t)
			c.Text = pc.text()
		case "call":
			c.Text = genCallProgram(t, names)
		case "symbols":
			// the identity and order of symbols is observable (symnum, <, hash codes): the names an
			// interpreter is born with must get the same numbers in every interpreter
			var b strings.Builder
			for i := 0; i < rapid.IntRange(1, 4).Draw(t, "nsym"); i++ {
				a := rapid.SampledFrom(names).Draw(t, "symA")
				bb := rapid.SampledFrom(names).Draw(t, "symB")
				switch rapid.IntRange(0, 3).Draw(t, "symk") {
				case 0:
					b.WriteString("(trace (symnum (quote " + a + ")))\n")
				case 1:
					b.WriteString("(trace (< (quote " + a + ") (quote " + bb + ")))\n")
				case 2:
					b.WriteString("(trace (- (symnum (quote " + a + ")) (symnum (quote " + bb + "))))\n")
				default:
					b.WriteString("(def fresh" + fmt.Sprint(i) + " 1) (trace (symnum (quote fresh" + fmt.Sprint(i) + ")))\n")
				}
			}
			c.Text = b.String()
		case "undeclared-struct":
			// uses a struct that only ANOTHER interpreter declares (between the runs), then declares
			// structs of its own in a fresh interpreter
			nm := rapid.SampledFrom([]string{"LeakRec", "Leak2", "first", "field"}).Draw(t, "leakname")
			c.Noise = "(struct " + nm + " [(field Id: int64)]) (def q (" + nm + " Id: 1))"
			c.Text = rapid.SampledFrom([]string{
				"(def x (" + nm + " Id: 1)) (trace (str x))",
				"(trace (str (" + nm + " [1 2])))",
				"(struct Own [(field tag: bool) (field Op: int64)]) (trace (str (Own Op: 3))) (trace (str (" + nm + " [5])))",
				"((fn [a] a) 1 2)",
				"(trace (gensym)) (trace (str (fn [x] x))) (def x (" + nm + " Id: 1))",
				"(defmap " + nm + ") (trace (str (" + nm + " Id: \"text\")))",
				"(defmap " + nm + ") (def r (" + nm + " Other: 5)) (trace (str r)) (trace (raw2str (json r)))",
			}).Draw(t, "leaktext")
			if strings.Contains(c.Text, "(defmap ") {
				// its own signature: see known_findings.txt (the registry is consulted by name, process-wide)
				c.Family = "undeclared-struct/defmap"
			}
		case "typed-call":
			// calls of a typed function with named arguments: which of several mistakes is reported
			// must not depend on a map walk
			var b strings.Builder
			b.WriteString("(func tfn [a:int64 b:string c:bool] [n:int64] (return (+ a 1)))\n")
			args := []string{"a:1", "b:\"s\"", "c:true", "a:\"wrong\"", "b:2", "zz:1", "yy:2", "xx:3", "c:nil"}
			var call []string
			for i := 0; i < rapid.IntRange(0, 5).Draw(t, "nnamed"); i++ {
				call = append(call, rapid.SampledFrom(args).Draw(t, "named"))
			}
			if rapid.IntRange(0, 3).Draw(t, "positional") == 0 {
				call = []string{"1", "\"s\"", rapid.SampledFrom([]string{"true", "5", ""}).Draw(t, "third")}
			}
			b.WriteString("(trace (tfn " + strings.Join(call, " ") + "))\n")
			c.Text = b.String()
		}
		nt := fam != "core"
		labels := []string{"family:" + fam}
		first := c20Observe(c)
		switch {
		case strings.HasPrefix(first, "ERROR"):
			labels = append(labels, "outcome:error")
		case strings.HasPrefix(first, "VALUE"):
			labels = append(labels, "outcome:value")
		default:
			labels = append(labels, "outcome:"+strings.ToLower(strings.Fields(first)[0]))
		}
		if strings.HasPrefix(first, "BUDGET") {
			r.Exclude("budget")
			return
		}
		r.Count("repeat", ev.Hash64(c.Text), nt, labels...)
		if nt && len(c.Text) < 600 {
			r.Sample("repeat", c.Text)
		}
		f := checkDeterministic(c)
		if f == nil && len(forProcs) < nProcCases {
			forProcs = append(forProcs, c)
			forProcsObs = append(forProcsObs, first)
		}
		p.report(t, "repeat", c, f)
	})
	nproc := 3
	if ev.Thorough() {
		nproc = 5
	}
	c20RunChildren(t, p, scratch, forProcs, forProcsObs, nproc)
	if ev.NShards() == 1 || ev.Shard() == 0 {
		c20Corpus(t, p, scratch)
	}
	p.done()
}

func c20Corpus(t *testing.T, p *propRun, scratch string) {
	r := p.r
	goBin := os.Getenv("VERIF_GO")
	repo := os.Getenv("VERIF_REPO")
	if repo == "" {
		repo = "/repo"
	}
	if goBin == "" {
		goBin = "/root/go/pkg/mod/golang.org/toolchain@v0.0.1-go1.24.2.linux-amd64/bin/go"
	}
	bin := filepath.Join(scratch, "zygo-c20")
	build := exec.Command(goBin, "build", "-o", bin, "./cmd/zygo")
	build.Dir = repo
	build.Env = append(os.Environ(), "GOFLAGS=-mod=mod", "GOPROXY=off", "GOSUMDB=off", "GOTOOLCHAIN=local", "CGO_ENABLED=0")
	if out, err := build.CombinedOutput(); err != nil {
		r.Inconclusive("cannot build cmd/zygo: " + firstLine(string(out)))
		return
	}
	defer os.Remove(bin)
	files, _ := filepath.Glob(filepath.Join(repo, "tests", "*.zy"))
	sort.Strings(files)
	skip := map[string]string{"timeit.zy": "timing", "infixMixHashArray.zy": "prints %#v of a pointer-holding struct", "coroutines.zy": "goroutine scheduling", "system.zy": "runs shell commands"}
	runs := 3
	if ev.Thorough() {
		runs = 6
	}
	for _, f := range files {
		base := filepath.Base(f)
		if why, ok := skip[base]; ok {
			r.Exclude("corpus-script-excluded:" + why)
			continue
		}
		var first string
		var fail *ev.Failure
		for k := 0; k < runs; k++ {
			cmd := exec.Command(bin, "-demo", "-exitonfail", filepath.Join("tests", base))
			cmd.Dir = repo
			cmd.Stdin = nil
			done := make(chan struct{})
			var out []byte
			var err error
			go func() { out, err = cmd.CombinedOutput(); close(done) }()
			select {
			case <-done:
			case <-time.After(30 * time.Second):
				if cmd.Process != nil {
					cmd.Process.Kill()
				}
				<-done
			}
			obs := string(out) + fmt.Sprintf("\n[exit: %v]", err)
			if k == 0 {
				first = obs
			} else if obs != first && fail == nil {
				fail = &ev.Failure{Sig: "corpus:" + base, Msg: "two runs of tests/" + base + " by the command line tool differ: " + c20DiffLine(first, obs), Expected: clip(first, 2000), Observed: clip(obs, 2000)}
			}
		}
		r.Count("corpus", ev.Hash64("corpus", base), true, "family:corpus")
		p.reportEnum("corpus", map[string]string{"script": base}, fail)
	}
}
