package props

import (
	"encoding/json"
	"flag"
	"fmt"
	"os"
	"path/filepath"
	"runtime/debug"
	"sort"
	"strings"
	"testing"

	"github.com/glycerine/zygomys/v9/zygo"
	"pgregory.net/rapid"

	"verif/harness/ev"
)

// ---------------------------------------------------------------------------
// replay registry

type replayFn func(raw json.RawMessage) (*ev.Failure, error)

var replayers = map[string]replayFn{}

// reg registers a pure check function for (property, sub-check) so that
// replay files can be re-executed without rapid.
func reg[C any](id, sub string, fn func(C) *ev.Failure) func(C) *ev.Failure {
	replayers[id+"/"+sub] = func(raw json.RawMessage) (*ev.Failure, error) {
		var c C
		if err := json.Unmarshal(raw, &c); err != nil {
			return nil, err
		}
		return fn(c), nil
	}
	return fn
}

// ---------------------------------------------------------------------------
// running a property

type propRun struct {
	t             *testing.T
	r             *ev.Run
	id            string
	markCompleted func()
}

// begin starts the evidence run for property id and arranges for the part
// file to be written however the test ends.
func begin(t *testing.T, id string) *propRun {
	r := ev.Begin(id)
	p := &propRun{t: t, r: r, id: id}
	completed := false
	t.Cleanup(func() { r.Close(completed && true) })
	p.markCompleted = func() { completed = true }
	return p
}

func (p *propRun) done() {
	p.runRegressions()
	p.markCompleted()
}

var _ = sort.Strings

// rapidSub runs one rapid property as a subtest with n checks and a seed
// derived from (VERIF_SEED, property, sub, shard).
func (p *propRun) rapidSub(sub string, n int, prop func(t *rapid.T)) {
	if n <= 0 {
		return
	}
	flag.Set("rapid.checks", fmt.Sprint(n))
	flag.Set("rapid.seed", fmt.Sprint(ev.DerivedSeed(p.id, sub)))
	flag.Set("rapid.nofailfile", "true")
	if os.Getenv("VERIF_SHRINKTIME") != "" {
		flag.Set("rapid.shrinktime", os.Getenv("VERIF_SHRINKTIME"))
	} else if !ev.Thorough() {
		flag.Set("rapid.shrinktime", "10s")
	}
	p.r.P.RapidRequests[sub] = n
	p.t.Run(sub, func(t *testing.T) {
		rapid.Check(t, prop)
	})
}

// report handles a failure inside a rapid property.
func (p *propRun) report(t *rapid.T, sub string, c any, f *ev.Failure) {
	if f == nil {
		return
	}
	if p.r.Fail(sub, c, f) {
		t.Fatalf("%s/%s: %s", p.id, sub, f.String())
	}
}

// reportEnum handles a failure inside an enumeration loop (no shrinking):
// one pending violation per distinct signature.
func (p *propRun) reportEnum(sub string, c any, f *ev.Failure) {
	if f == nil {
		return
	}
	if p.r.FailDistinct(sub, c, f) {
		p.t.Errorf("%s/%s: %s", p.id, sub, f.String())
	}
}

// runRegressions re-executes every committed replay file of this property
// (shrunk inputs of repaired defects and seeded mutants' witnesses).
func (p *propRun) runRegressions() {
	dir := filepath.Join(ev.VerifDir(), "replays")
	files, _ := filepath.Glob(filepath.Join(dir, p.id+"-*.json"))
	sort.Strings(files)
	for _, f := range files {
		rp, err := ev.LoadReplay(f)
		if err != nil {
			p.t.Errorf("bad replay file %s: %v", f, err)
			continue
		}
		fn := replayers[rp.Property+"/"+rp.Sub]
		if fn == nil {
			p.t.Errorf("replay %s: no replayer for %s/%s", f, rp.Property, rp.Sub)
			continue
		}
		fail, err := fn(rp.Case)
		if err != nil {
			p.t.Errorf("replay %s: %v", f, err)
			continue
		}
		p.r.P.ReplaysRun++
		p.r.Count("regression", ev.Hash64(f), false, "regression-replay")
		if fail != nil {
			var c any
			json.Unmarshal(rp.Case, &c)
			if p.r.FailDistinct(rp.Sub, c, fail) {
				p.t.Errorf("regression %s: %s", filepath.Base(f), fail.String())
			}
		}
	}
}

// TestReplay re-runs one replay file (env VERIF_REPLAY) through the plain
// check function, bypassing rapid.
func TestReplay(t *testing.T) {
	path := os.Getenv("VERIF_REPLAY")
	if path == "" {
		t.Skip("VERIF_REPLAY not set")
	}
	rp, err := ev.LoadReplay(path)
	if err != nil {
		t.Fatalf("cannot load %s: %v", path, err)
	}
	fn := replayers[rp.Property+"/"+rp.Sub]
	if fn == nil {
		t.Fatalf("no replayer for %s/%s", rp.Property, rp.Sub)
	}
	fail, err := fn(rp.Case)
	if err != nil {
		t.Fatalf("replay error: %v", err)
	}
	if fail != nil {
		fmt.Printf("REPLAY-FAILS property=%s sub=%s sig=%s\n%s\n", rp.Property, rp.Sub, fail.Sig, fail.String())
		t.Fail()
		return
	}
	fmt.Printf("REPLAY-PASSES property=%s sub=%s\n", rp.Property, rp.Sub)
}

// ---------------------------------------------------------------------------
// interpreters

const defaultBudget = 20000

type envKind int

const (
	envFull envKind = iota
	envSandbox
	envSandboxStd
)

func errStub(name string) zygo.ZlispUserFunction {
	return func(env *zygo.Zlisp, _ string, args []zygo.Sexp) (zygo.Sexp, error) {
		return zygo.SexpNull, fmt.Errorf("%s: disabled in verification harness", name)
	}
}

// dangerous builtins that the general-purpose harness interpreter replaces by
// error stubs (C08 has its own, un-stubbed, child-process setup).

// newEnv builds a fresh interpreter. The full kind has every builtin except
// the outside-world ones.
func newEnv(kind envKind) *zygo.Zlisp {
	var env *zygo.Zlisp
	switch kind {
	case envFull:
		sys := zygo.SystemFunctions()
		safe := map[string]zygo.ZlispUserFunction{}
		for _, k := range []string{"togo", "fromgo", "typelist", "rmsym", "_closdump"} {
			safe[k] = sys[k]
		}
		env = zygo.NewZlispWithFuncs(zygo.MergeFuncMap(zygo.SandboxSafeFunctions(), zygo.ReflectionFunctions(), safe))
		env.StandardSetup()
		for _, k := range []string{"sys", "import", "makeChan", "send", "<!", "source"} {
			env.AddFunction(k, errStub(k))
		}
	case envSandbox:
		env = zygo.NewZlispSandbox()
	case envSandboxStd:
		env = zygo.NewZlispSandbox()
		env.StandardSetup()
	}
	return env
}

type evalResult struct {
	Val      zygo.Sexp
	Err      error
	Panic    string // non-empty when a Go panic escaped the library
	Budget   bool   // step budget exhausted
	Printed  string
	PrintErr string
}

// safeCall runs fn, converting an escaping panic into a string.
func safeCall(fn func()) (panicked string) {
	defer func() {
		if r := recover(); r != nil {
			panicked = fmt.Sprintf("%v\n%s", r, trimStack(string(debug.Stack())))
		}
	}()
	fn()
	return ""
}

func trimStack(s string) string {
	lines := strings.Split(s, "\n")
	var keep []string
	for _, l := range lines {
		if strings.Contains(l, "zygomys") || strings.Contains(l, "panic") {
			keep = append(keep, strings.TrimSpace(l))
		}
		if len(keep) > 12 {
			break
		}
	}
	return strings.Join(keep, " | ")
}

// evalString evaluates text on env under the step budget and captures panics.
func evalString(env *zygo.Zlisp, text string, budget int64) (res evalResult) {
	zygo.VerifSetStepBudget(budget)
	defer zygo.VerifSetStepBudget(0)
	res.Panic = safeCall(func() {
		res.Val, res.Err = env.EvalString(text)
	})
	res.Budget = zygo.VerifBudgetExceeded()
	return
}

func printSexp(v zygo.Sexp) (s string, panicked string) {
	panicked = safeCall(func() {
		if v == nil {
			s = "<go-nil>"
			return
		}
		s = v.SexpString(nil)
	})
	return
}

func errString(err error) string {
	if err == nil {
		return ""
	}
	return err.Error()
}
