package props

import (
	"fmt"
	"math"
	"strings"

	"github.com/glycerine/zygomys/v9/zygo"
)

// dump renders a Sexp structurally with type tags, so that values that print
// alike (1 vs 1.0, "a" vs a) compare different. It never calls the library's
// printers for data it can take apart itself.
func dump(x zygo.Sexp) string {
	var b strings.Builder
	dumpTo(&b, x, 0)
	return b.String()
}

func dumpTo(b *strings.Builder, x zygo.Sexp, depth int) {
	if depth > 60 {
		b.WriteString("<deep>")
		return
	}
	switch v := x.(type) {
	case nil:
		b.WriteString("<go-nil>")
	case *zygo.SexpInt:
		fmt.Fprintf(b, "i:%d", v.Val)
	case *zygo.SexpUint64:
		fmt.Fprintf(b, "u:%d", v.Val)
	case *zygo.SexpFloat:
		if math.IsNaN(v.Val) {
			b.WriteString("f:NaN")
		} else {
			fmt.Fprintf(b, "f:%016x", math.Float64bits(v.Val))
		}
	case *zygo.SexpChar:
		fmt.Fprintf(b, "c:%d", v.Val)
	case *zygo.SexpBool:
		fmt.Fprintf(b, "b:%v", v.Val)
	case *zygo.SexpStr:
		fmt.Fprintf(b, "s:%q", v.S)
	case *zygo.SexpSymbol:
		fmt.Fprintf(b, "y:%s", v.Name())
	case *zygo.SexpSentinel:
		switch v {
		case zygo.SexpNull:
			b.WriteString("nil")
		case zygo.SexpEnd:
			b.WriteString("<end>")
		case zygo.SexpMarker:
			b.WriteString("<marker>")
		default:
			fmt.Fprintf(b, "<sentinel %d>", v.Val)
		}
	case *zygo.SexpPair:
		b.WriteString("(")
		var cur zygo.Sexp = v
		first := true
		n := 0
		for {
			p, ok := cur.(*zygo.SexpPair)
			if !ok {
				break
			}
			if !first {
				b.WriteString(" ")
			}
			first = false
			dumpTo(b, p.Head, depth+1)
			cur = p.Tail
			n++
			if n > 100000 {
				b.WriteString(" <long>")
				break
			}
		}
		if cur != zygo.SexpNull {
			b.WriteString(" \\ ")
			dumpTo(b, cur, depth+1)
		}
		b.WriteString(")")
	case *zygo.SexpArray:
		b.WriteString("[")
		for i, e := range v.Val {
			if i > 0 {
				b.WriteString(" ")
			}
			dumpTo(b, e, depth+1)
		}
		b.WriteString("]")
	case *zygo.SexpHash:
		fmt.Fprintf(b, "{%s", v.TypeName)
		for _, k := range v.KeyOrder {
			b.WriteString(" ")
			dumpTo(b, k, depth+1)
			b.WriteString("=")
			val, err := v.HashGet(nil, k)
			if err != nil {
				b.WriteString("<missing>")
			} else {
				dumpTo(b, val, depth+1)
			}
		}
		b.WriteString("}")
	case *zygo.SexpComment:
		fmt.Fprintf(b, "comment:%q", v.Comment)
	case *zygo.SexpRaw:
		fmt.Fprintf(b, "raw:%x", v.Val)
	case *zygo.SexpFunction:
		b.WriteString("<fn>")
	case *zygo.SexpComma:
		b.WriteString("<comma>")
	case *zygo.SexpSemicolon:
		b.WriteString("<semi>")
	default:
		s, p := printSexp(x)
		if p != "" {
			s = "<print-panic>"
		}
		fmt.Fprintf(b, "%T:%s", x, s)
	}
}

func dumpList(xs []zygo.Sexp) string {
	var parts []string
	for _, x := range xs {
		parts = append(parts, dump(x))
	}
	return strings.Join(parts, " ; ")
}
