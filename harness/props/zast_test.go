package props

import (
	"fmt"
	"strconv"
	"strings"
)

// zast: a small AST of the core language, with an s-expression renderer.
// Shared by C02 C03 C04 C05 C09 C16. JSON-serialisable (replay files).

type Node struct {
	K     string   `json:"k"`
	I     int64    `json:"i,omitempty"`
	F     float64  `json:"f,omitempty"`
	S     string   `json:"s,omitempty"`
	B     bool     `json:"b,omitempty"`
	Kids  []*Node  `json:"kids,omitempty"`
	Names []string `json:"names,omitempty"` // let names / fn params ("#x" lazy)
	Var   bool     `json:"var,omitempty"`   // fn: last param is a rest parameter
	Label string   `json:"label,omitempty"` // for / break / continue
}

// Kinds:
//  int float str bool nil          literals
//  var(S)                          variable reference
//  def(S) set(S)                   Kids[0] = value
//  let letseq                      Names, Kids[0:n] = right-hand sides, Kids[n:] = body
//  newScope begin                  Kids = body
//  cond                            Kids = p1 b1 ... default
//  and or                          Kids
//  for                             Label?, Kids[0] init, [1] test, [2] advance, [3:] body
//  break continue                  Label?
//  fn                              Names params, Var, Kids body
//  defn(S)                         Names, Var, Kids body
//  call                            Kids[0] callee, Kids[1:] args
//  prim(S)                         builtin S applied to Kids
//  arr                             array literal [..]
//  hashlit                         (hash k: v ...) Names = keys, Kids = values
//  key(S)                          symbol used as hash key:  S:
//  trace                           (trace Kids[0])
//  probe(I)                        (probe I)
//  assert                          (assert Kids[0])
//  stop(S)                         (stop "S")
//  raw(S)                          verbatim source text (planted malformed forms)

func N(k string, kids ...*Node) *Node { return &Node{K: k, Kids: kids} }
func NInt(i int64) *Node              { return &Node{K: "int", I: i} }
func NFloat(f float64) *Node          { return &Node{K: "float", F: f} }
func NStr(s string) *Node             { return &Node{K: "str", S: s} }
func NBool(b bool) *Node              { return &Node{K: "bool", B: b} }
func NNil() *Node                     { return &Node{K: "nil"} }
func NVar(s string) *Node             { return &Node{K: "var", S: s} }
func NDef(s string, v *Node) *Node    { return &Node{K: "def", S: s, Kids: []*Node{v}} }
func NSet(s string, v *Node) *Node    { return &Node{K: "set", S: s, Kids: []*Node{v}} }
func NPrim(s string, a ...*Node) *Node {
	return &Node{K: "prim", S: s, Kids: a}
}
func NCall(f *Node, a ...*Node) *Node { return &Node{K: "call", Kids: append([]*Node{f}, a...)} }
func NTrace(x *Node) *Node            { return &Node{K: "trace", Kids: []*Node{x}} }

func (n *Node) Size() int {
	if n == nil {
		return 0
	}
	s := 1
	for _, k := range n.Kids {
		s += k.Size()
	}
	return s
}

func (n *Node) Walk(f func(*Node)) {
	if n == nil {
		return
	}
	f(n)
	for _, k := range n.Kids {
		k.Walk(f)
	}
}

func fmtFloat(f float64) string {
	s := strconv.FormatFloat(f, 'f', -1, 64)
	if !strings.ContainsAny(s, ".eE") {
		s += ".0"
	}
	return s
}

func paramList(names []string, variadic bool) string {
	var p []string
	for i, n := range names {
		if variadic && i == len(names)-1 {
			p = append(p, "&")
		}
		p = append(p, n)
	}
	return "[" + strings.Join(p, " ") + "]"
}

// Render gives the canonical s-expression source of n.
func (n *Node) Render() string {
	var b strings.Builder
	n.render(&b)
	return b.String()
}

func renderAll(b *strings.Builder, ns []*Node) {
	for _, k := range ns {
		b.WriteString(" ")
		k.render(b)
	}
}

func (n *Node) render(b *strings.Builder) {
	switch n.K {
	case "int":
		b.WriteString(strconv.FormatInt(n.I, 10))
	case "float":
		b.WriteString(fmtFloat(n.F))
	case "str":
		b.WriteString(strconv.Quote(n.S))
	case "bool":
		b.WriteString(strconv.FormatBool(n.B))
	case "nil":
		b.WriteString("nil")
	case "var":
		b.WriteString(n.S)
	case "key":
		b.WriteString(n.S + ":")
	case "raw":
		b.WriteString(n.S)
	case "def", "set":
		b.WriteString("(" + n.K + " " + n.S)
		renderAll(b, n.Kids)
		b.WriteString(")")
	case "let", "letseq":
		b.WriteString("(" + n.K + " [")
		for i, nm := range n.Names {
			if i > 0 {
				b.WriteString(" ")
			}
			b.WriteString(nm + " ")
			n.Kids[i].render(b)
		}
		b.WriteString("]")
		renderAll(b, n.Kids[len(n.Names):])
		b.WriteString(")")
	case "newScope", "begin", "and", "or", "cond":
		b.WriteString("(" + n.K)
		renderAll(b, n.Kids)
		b.WriteString(")")
	case "for":
		b.WriteString("(for ")
		if n.Label != "" {
			b.WriteString(n.Label + ": ")
		}
		b.WriteString("[")
		n.Kids[0].render(b)
		b.WriteString(" ")
		n.Kids[1].render(b)
		b.WriteString(" ")
		n.Kids[2].render(b)
		b.WriteString("]")
		renderAll(b, n.Kids[3:])
		b.WriteString(")")
	case "break", "continue":
		b.WriteString("(" + n.K)
		if n.Label != "" {
			b.WriteString(" " + n.Label + ":")
		}
		b.WriteString(")")
	case "fn":
		b.WriteString("(fn " + paramList(n.Names, n.Var))
		renderAll(b, n.Kids)
		b.WriteString(")")
	case "defn":
		b.WriteString("(defn " + n.S + " " + paramList(n.Names, n.Var))
		renderAll(b, n.Kids)
		b.WriteString(")")
	case "funcdecl":
		// typed declaration: (func name [a:int64 #b:int64] [r:int64] body...)
		b.WriteString("(func " + n.S + " [")
		for i, nm := range n.Names {
			if i > 0 {
				b.WriteString(" ")
			}
			b.WriteString(nm + ":int64")
		}
		b.WriteString("] [r:int64]")
		renderAll(b, n.Kids)
		b.WriteString(")")
	case "call":
		b.WriteString("(")
		n.Kids[0].render(b)
		renderAll(b, n.Kids[1:])
		b.WriteString(")")
	case "prim":
		b.WriteString("(" + n.S)
		renderAll(b, n.Kids)
		b.WriteString(")")
	case "arr":
		b.WriteString("[")
		for i, k := range n.Kids {
			if i > 0 {
				b.WriteString(" ")
			}
			k.render(b)
		}
		b.WriteString("]")
	case "hashlit":
		b.WriteString("(hash")
		for i, k := range n.Kids {
			b.WriteString(" " + n.Names[i] + ": ")
			k.render(b)
		}
		b.WriteString(")")
	case "trace":
		b.WriteString("(trace")
		renderAll(b, n.Kids)
		b.WriteString(")")
	case "probe":
		fmt.Fprintf(b, "(probe %d)", n.I)
	case "assert":
		b.WriteString("(assert")
		renderAll(b, n.Kids)
		b.WriteString(")")
	case "islazy":
		b.WriteString("(== (type?")
		renderAll(b, n.Kids)
		b.WriteString(") \"lazyArg\")")
	case "stop":
		b.WriteString("(stop " + strconv.Quote(n.S) + ")")
	default:
		b.WriteString("<?" + n.K + ">")
	}
}

// RenderProgram joins top-level forms, one per line.
func RenderProgram(forms []*Node) string {
	var b strings.Builder
	for _, f := range forms {
		f.render(&b)
		b.WriteString("\n")
	}
	return b.String()
}
