package props

import (
	"fmt"

	"pgregory.net/rapid"
)

// zgen: type-directed generator of well-formed core-language programs.
// Types: int float bool str arr(list of int as array) list(of int) hash(symbol->int)
//        fn1 (int->int)  fn2 ((int,int)->int)
// Named functions (defn) carry a full signature incl. variadic / lazy parameters.

type fnsig struct {
	Params   []string // parameter types
	Lazy     []bool
	Variadic bool // last parameter collects extra int arguments as a list
	Ret      string
	Rec      bool // recursive on first int parameter: call only with small literals
}

type gvar struct {
	typ    string // value type, or "defn" for named functions with sig
	sig    *fnsig
	hidden bool // reserved in this scope (let name not bound yet): fixes the type, not visible
}

type gscope struct {
	vars   map[string]gvar
	parent *gscope
	isLoop bool // scope of a for loop: re-executed on every iteration
	isFn   bool // scope of a function body
	condAt int  // conditional nesting depth at which the scope was opened
}

// lookup resolves a name statically. A let name that is reserved but not bound yet is skipped
// (the right-hand sides see the outer binding) - except from inside a function body created in
// such a right-hand side: that closure captures the let scope and, when called later, finds the
// let's binding, so for its body the name has no single static meaning and is unavailable.
func (s *gscope) lookup(name string) (gvar, bool) {
	crossedFn := false
	for c := s; c != nil; c = c.parent {
		if v, ok := c.vars[name]; ok {
			if !v.hidden {
				return v, true
			}
			if crossedFn {
				return gvar{}, false
			}
		}
		if c.isFn {
			crossedFn = true
		}
	}
	return gvar{}, false
}

func (s *gscope) visible(typ string) []string {
	seen := map[string]bool{}
	var out []string
	crossedFn := false
	for c := s; c != nil; c = c.parent {
		for n, v := range c.vars {
			if seen[n] {
				continue
			}
			if v.hidden {
				if crossedFn {
					seen[n] = true // see lookup
				}
				continue
			}
			seen[n] = true
			if v.typ == typ {
				out = append(out, n)
			}
		}
		if c.isFn {
			crossedFn = true
		}
	}
	sortStrings(out)
	return out
}

// settable: the visible variables of a type that a set may target. A name that is reserved
// (let name not bound yet) in an enclosing scope is left out: should the outer binding be
// missing at run time (its definition was cut short by an injected failure), set would bind the
// name in the let scope at another type than the let gives it, and zygo's same-scope re-def
// type rule - which no property statement fixes - would decide the outcome.
func (g *gen) settable(typ string) []string {
	var out []string
	for _, n := range g.scope.visible(typ) {
		reserved := false
		for c := g.scope; c != nil; c = c.parent {
			if v, ok := c.vars[n]; ok && v.hidden {
				reserved = true
			}
		}
		if !reserved {
			out = append(out, n)
		}
	}
	return out
}

func scalarType(t string) bool {
	// function values have no dynamic type in zygo, so re-binding them is never refused
	return t == "int" || t == "bool" || t == "str" || t == "float" || t == "fn0" || t == "fn1" || t == "fn2" || t == "ffn0"
}

func sortStrings(a []string) {
	for i := 1; i < len(a); i++ {
		for j := i; j > 0 && a[j] < a[j-1]; j-- {
			a[j], a[j-1] = a[j-1], a[j]
		}
	}
}

type genCfg struct {
	VarNames   []string
	FnNames    []string
	MaxDepth   int
	Budget     int
	TraceProb  int // 1 in N expressions wrapped in (trace ..); 0 = never
	PlantError bool
	Probes     bool // sprinkle (probe k) calls (C05)
	ScopeOnly  bool // C03: only scoping forms and integer arithmetic
	Lazy       bool // C16: lazy parameters
}

type gen struct {
	t         *rapid.T
	cfg       genCfg
	scope     *gscope
	budget    int
	loops     []string // enclosing loop labels ("" for unlabelled) within the current function
	labels    map[string]bool
	nextLbl   int
	planted   bool
	probeN    int
	features  map[string]bool
	defMode   bool     // picking the name of a def / defn (see stmt)
	fnStack   []string // names of the defn forms being generated (outermost first)
	condDepth int      // nesting depth of conditionally evaluated positions
	argDepth  int      // >0 while generating an argument of a call / builtin / trace
	tags      []string // known-shape tags of this program (see known_findings.txt)
}

func newGen(t *rapid.T, cfg genCfg) *gen {
	return &gen{t: t, cfg: cfg, scope: &gscope{vars: map[string]gvar{}}, budget: cfg.Budget, labels: map[string]bool{}, features: map[string]bool{}}
}

func (g *gen) feat(f string) { g.features[f] = true }

func (g *gen) push() {
	g.scope = &gscope{vars: map[string]gvar{}, parent: g.scope, condAt: g.condDepth}
}

// condArm generates e inside a conditionally evaluated position: a definition made
// there into a scope opened outside might or might not happen at run time, which
// would make the static types this generator tracks unreliable.
func (g *gen) condArm(typ string, d int) *Node {
	g.condDepth++
	n := g.expr(typ, d)
	g.condDepth--
	return n
}

func (g *gen) defAllowed() bool { return g.scope.condAt == g.condDepth }
func (g *gen) pop()             { g.scope = g.scope.parent }

func (g *gen) pick(n int, label string) int { return rapid.IntRange(0, n-1).Draw(g.t, label) }
func (g *gen) chance(n int, label string) bool {
	if n <= 0 {
		return false
	}
	return rapid.IntRange(0, n-1).Draw(g.t, label) == 0
}

var boundaryInts = []int64{0, 1, -1, 2, 3, 5, 7, 10, 100, -7, 1 << 31, -(1 << 31), 1<<53 + 1, 9223372036854775807, -9223372036854775808}

func (g *gen) intLit() *Node {
	if g.cfg.ScopeOnly || !g.chance(6, "boundary") {
		return NInt(int64(rapid.IntRange(0, 9).Draw(g.t, "small")))
	}
	return NInt(rapid.SampledFrom(boundaryInts).Draw(g.t, "bint"))
}

func (g *gen) maybeTrace(n *Node) *Node {
	if g.cfg.TraceProb > 0 && g.chance(g.cfg.TraceProb, "trace") {
		return NTrace(n)
	}
	return n
}

// keepKnown decides whether a shape that is a listed known finding is kept (and the
// program tagged with it) or must be excluded by construction. A program carries at
// most one tag, so that its failures are attributable to exactly one known finding.
func (g *gen) keepKnown(shape string, oneIn int) bool {
	if len(g.tags) == 1 && g.tags[0] == shape {
		return true
	}
	if len(g.tags) == 0 && g.chance(oneIn, "keep-"+shape) {
		g.tags = []string{shape}
		return true
	}
	g.feat("excluded:" + shape)
	return false
}

// hasEscapingJump reports a break/continue in n whose target loop is not inside n.
func hasEscapingJump(n *Node) bool {
	found := false
	var walk func(n *Node, loops []string)
	walk = func(n *Node, loops []string) {
		switch n.K {
		case "break", "continue":
			for i := len(loops) - 1; i >= 0; i-- {
				if n.Label == "" || loops[i] == n.Label {
					return
				}
			}
			found = true
			return
		case "for":
			for _, k := range n.Kids[:3] {
				walk(k, loops)
			}
			inner := append(append([]string{}, loops...), n.Label)
			for _, k := range n.Kids[3:] {
				walk(k, inner)
			}
			return
		case "fn", "defn":
			for _, k := range n.Kids {
				walk(k, nil)
			}
			return
		}
		for _, k := range n.Kids {
			walk(k, loops)
		}
	}
	walk(n, nil)
	return found
}

// breaksCrossingCallArgs finds break/continue nodes whose target loop lies outside a
// call argument that contains them. zygo compiles call arguments at call time, outside
// the loop's compile-time context (known finding), so such programs are either tagged
// or have the jump replaced by nil.
func breaksCrossingCallArgs(forms []*Node) []*Node {
	type loopEnt struct {
		label string
		args  int
	}
	var out []*Node
	var walk func(n *Node, loops []loopEnt, args int)
	walk = func(n *Node, loops []loopEnt, args int) {
		switch n.K {
		case "break", "continue":
			for i := len(loops) - 1; i >= 0; i-- {
				if n.Label == "" || loops[i].label == n.Label {
					if args > loops[i].args {
						out = append(out, n)
					}
					return
				}
			}
			return
		case "for":
			for _, k := range n.Kids[:3] {
				walk(k, loops, args)
			}
			inner := append(append([]loopEnt{}, loops...), loopEnt{n.Label, args})
			for _, k := range n.Kids[3:] {
				walk(k, inner, args)
			}
			return
		case "fn", "defn":
			for _, k := range n.Kids {
				walk(k, nil, 0)
			}
			return
		case "call", "prim", "trace", "hashlit", "assert":
			for _, k := range n.Kids {
				walk(k, loops, args+1)
			}
			return
		}
		for _, k := range n.Kids {
			walk(k, loops, args)
		}
	}
	for _, f := range forms {
		walk(f, nil, 0)
	}
	return out
}

// freshName picks a name for a new definition of type typ in the current
// innermost scope: a name already bound in this scope is only reused with the
// same type (zygo refuses to re-def at another type in one scope; the property
// statements do not fix that rule).
func (g *gen) freshName(typ string, pool []string) string {
	for try := 0; try < 8; try++ {
		n := rapid.SampledFrom(pool).Draw(g.t, "name")
		if v, ok := g.scope.vars[n]; ok && (v.typ != typ || !scalarType(typ)) {
			// compound values carry content-dependent dynamic types in zygo ([] vs [1] vs
			// the result of map), so they are never re-def'd in one scope at all
			continue
		}
		if g.defMode || g.scope.isLoop {
			// a loop scope is re-executed: a def that shadows an outer name of another type
			// would change, on the next iteration, the dynamic type of everything defined
			// from that name earlier in the body (zygo's same-scope re-def type rule again)
			if v, ok := g.scope.parent.lookup(n); ok && (v.typ != typ || (typ == "defn" && g.scope.isLoop)) {
				// (a defn in a loop scope that shadows an outer function changes, from the second
				// iteration on, what earlier statements of the body call - and the type of what
				// they define)
				continue
			}
		}
		return n
	}
	for i := 0; ; i++ {
		n := fmt.Sprintf("%s%d", pool[0], i)
		if _, ok := g.scope.lookup(n); !ok {
			return n
		}
	}
}

// expr generates an expression of type typ.
func (g *gen) expr(typ string, depth int) *Node {
	g.budget--
	n := g.exprInner(typ, depth)
	if g.cfg.Probes && typ == "int" && !hasEscapingJump(n) && g.chance(9, "tryHere") {
		// a host function that calls the closure and contains its failure (returns -1)
		g.feat("try")
		n = NPrim("try", &Node{K: "fn", Kids: []*Node{n}})
	}
	if g.cfg.Probes && typ == "int" && g.probeN < 12 && g.chance(5, "probeHere") {
		// a host-function call that can be made to fail (C05)
		g.probeN++
		g.feat("probe")
		n = NPrim("+", n, &Node{K: "probe", I: int64(g.probeN)})
	}
	if typ == "int" || typ == "bool" || typ == "str" {
		return g.maybeTrace(n)
	}
	return n
}

func (g *gen) leaf(typ string) *Node {
	if g.cfg.ScopeOnly && typ == "int" && g.chance(12, "anyName") {
		// a name that need not be lexically visible here: it may be unbound, or bound only in
		// a caller's frame (which a lexically scoped language must not see)
		g.feat("possibly-non-lexical-name")
		return NVar(rapid.SampledFrom(g.cfg.VarNames).Draw(g.t, "anyVar"))
	}
	if vs := g.scope.visible(typ); len(vs) > 0 && !g.chance(3, "lit") {
		return NVar(rapid.SampledFrom(vs).Draw(g.t, "var"))
	}
	switch typ {
	case "int":
		return g.intLit()
	case "float":
		return NFloat(rapid.SampledFrom([]float64{0.5, 1.5, 2.25, -3.5, 100.0, 1e10}).Draw(g.t, "flt"))
	case "bool":
		return NBool(rapid.Bool().Draw(g.t, "b"))
	case "str":
		return NStr(rapid.SampledFrom([]string{"", "a", "bc", "x y", "é"}).Draw(g.t, "s"))
	case "arr":
		n := N("arr")
		for i := 0; i < g.pick(4, "alen"); i++ {
			n.Kids = append(n.Kids, g.intLit())
		}
		return n
	case "list":
		n := NPrim("list")
		for i := 0; i < 1+g.pick(3, "llen"); i++ {
			n.Kids = append(n.Kids, g.intLit())
		}
		return n
	case "hash":
		n := &Node{K: "hashlit"}
		for i, k := range []string{"k1", "k2", "k3"}[:1+g.pick(3, "hlen")] {
			_ = i
			n.Names = append(n.Names, k)
			n.Kids = append(n.Kids, g.intLit())
		}
		return n
	case "fn0":
		return g.fnLiteral(nil, "int")
	case "fn1":
		return g.fnLiteral([]string{"int"}, "int")
	case "fn2":
		return g.fnLiteral([]string{"int", "int"}, "int")
	case "ffn0":
		// a function returning a function: the innermost body is two function levels down
		g.feat("fn-returning-fn")
		return g.fnLiteral(nil, "fn0")
	}
	return NNil()
}

func (g *gen) exprInner(typ string, depth int) *Node {
	if depth >= g.cfg.MaxDepth || g.budget <= 0 {
		return g.leaf(typ)
	}
	d := depth + 1
	// forms available for every type
	switch g.pick(12, "generic") {
	case 0:
		// cond
		g.feat("cond")
		n := N("cond")
		for i := 0; i < 1+g.pick(2, "arms"); i++ {
			if i == 0 {
				n.Kids = append(n.Kids, g.expr("bool", d))
			} else {
				n.Kids = append(n.Kids, g.condArm("bool", d))
			}
			n.Kids = append(n.Kids, g.condArm(typ, d))
		}
		n.Kids = append(n.Kids, g.condArm(typ, d))
		return n
	case 1:
		// let / letseq
		kind := rapid.SampledFrom([]string{"let", "letseq"}).Draw(g.t, "letk")
		g.feat(kind)
		n := &Node{K: kind}
		k := 1 + g.pick(2, "nb")
		types := make([]string, k)
		for i := 0; i < k; i++ {
			types[i] = rapid.SampledFrom([]string{"int", "int", "bool", "arr"}).Draw(g.t, "bt")
			if g.cfg.ScopeOnly {
				types[i] = rapid.SampledFrom([]string{"int", "int", "int", "fn0", "fn0", "ffn0"}).Draw(g.t, "sbt")
			}
		}
		g.push()
		// Right-hand sides run inside the new scope (a def there lands in it), but the
		// names being bound are not visible yet: reserve them first so that their type
		// in this scope is fixed, reveal them as binding proceeds.
		for i := 0; i < k; i++ {
			nm := g.freshName(types[i], g.cfg.VarNames)
			for contains(n.Names, nm) {
				nm += "q"
			}
			n.Names = append(n.Names, nm)
			g.scope.vars[nm] = gvar{typ: types[i], hidden: true}
		}
		for i := 0; i < k; i++ {
			n.Kids = append(n.Kids, g.expr(types[i], d))
			if kind == "letseq" {
				g.scope.vars[n.Names[i]] = gvar{typ: types[i]}
			}
		}
		for i := 0; i < k; i++ {
			g.scope.vars[n.Names[i]] = gvar{typ: types[i]}
		}
		n.Kids = append(n.Kids, g.bodyStmts(d)...)
		n.Kids = append(n.Kids, g.expr(typ, d))
		g.pop()
		return n
	case 2:
		// begin / newScope with statements then value
		kind := rapid.SampledFrom([]string{"begin", "newScope"}).Draw(g.t, "seqk")
		g.feat(kind)
		n := N(kind)
		if kind == "newScope" {
			g.push()
		}
		n.Kids = append(n.Kids, g.bodyStmts(d)...)
		n.Kids = append(n.Kids, g.expr(typ, d))
		if kind == "newScope" {
			g.pop()
		}
		return n
	case 3, 5, 6:
		// call of a named function returning typ
		if c := g.callNamed(typ, d); c != nil {
			return c
		}
	case 4:
		if typ != "int" || g.cfg.ScopeOnly {
			break
		}
		// and / or of ints: value of the last arm evaluated
		kind := rapid.SampledFrom([]string{"and", "or"}).Draw(g.t, "sck")
		g.feat(kind)
		n := N(kind)
		for i := 0; i < 2+g.pick(2, "scn"); i++ {
			if i == 0 {
				n.Kids = append(n.Kids, g.expr("int", d))
			} else {
				n.Kids = append(n.Kids, g.condArm("int", d))
			}
		}
		return n
	}
	switch typ {
	case "int":
		return g.intExpr(d)
	case "bool":
		switch g.pick(5, "boolk") {
		case 0:
			return NPrim("not", g.expr("bool", d))
		case 1:
			kind := rapid.SampledFrom([]string{"and", "or"}).Draw(g.t, "bsc")
			g.feat(kind)
			return N(kind, g.expr("bool", d), g.condArm("bool", d))
		case 2:
			if !g.cfg.ScopeOnly {
				return NPrim(rapid.SampledFrom([]string{"==", "!=", "<"}).Draw(g.t, "scmp"), g.expr("str", d), g.expr("str", d))
			}
		}
		return NPrim(rapid.SampledFrom([]string{"<", "<=", ">", ">=", "==", "!="}).Draw(g.t, "cmp"), g.expr("int", d), g.expr("int", d))
	case "float":
		switch g.pick(3, "fk") {
		case 0:
			return NPrim(rapid.SampledFrom([]string{"+", "-", "*", "/"}).Draw(g.t, "fop"), g.expr("float", d), g.expr("int", d))
		case 1:
			return NPrim(rapid.SampledFrom([]string{"+", "-", "*"}).Draw(g.t, "fop2"), g.expr("float", d), g.expr("float", d))
		}
		return g.leaf("float")
	case "str":
		switch g.pick(3, "sk") {
		case 0:
			return NPrim("concat", g.expr("str", d), g.expr("str", d))
		case 1:
			return NPrim("str", g.expr("int", d))
		}
		return g.leaf("str")
	case "arr":
		switch g.pick(5, "ak") {
		case 0:
			n := N("arr")
			for i := 0; i < 1+g.pick(3, "an"); i++ {
				n.Kids = append(n.Kids, g.expr("int", d))
			}
			return n
		case 1:
			// fresh arrays only: append/concat results may share storage with their argument
			return NPrim("append", g.freshArr(d), g.expr("int", d))
		case 2:
			g.feat("map")
			return NPrim("map", g.expr("fn1", d), g.expr("arr", d))
		case 3:
			return NPrim("concat", g.freshArr(d), g.freshArr(d))
		}
		return g.leaf("arr")
	case "list":
		switch g.pick(4, "lk") {
		case 0:
			return NPrim("cons", g.expr("int", d), g.expr("list", d))
		case 1:
			g.feat("map")
			return NPrim("map", g.expr("fn1", d), g.expr("list", d))
		case 2:
			n := NPrim("list")
			for i := 0; i < 1+g.pick(3, "ln"); i++ {
				n.Kids = append(n.Kids, g.expr("int", d))
			}
			return n
		}
		return g.leaf("list")
	case "fn0", "fn1", "fn2", "ffn0":
		if vs := g.scope.visible(typ); len(vs) > 0 && g.chance(2, "fnvar") {
			return NVar(rapid.SampledFrom(vs).Draw(g.t, "fv"))
		}
		if typ == "ffn0" {
			return g.leaf("ffn0")
		}
		if typ == "fn0" && g.cfg.ScopeOnly {
			if vs := g.scope.visible("ffn0"); len(vs) > 0 && g.chance(3, "ffcall") {
				g.feat("call-of-fn-returning-fn")
				return NCall(NVar(rapid.SampledFrom(vs).Draw(g.t, "ffv")))
			}
		}
		if typ == "fn0" {
			return g.fnLiteral(nil, "int")
		}
		if typ == "fn1" {
			return g.fnLiteral([]string{"int"}, "int")
		}
		return g.fnLiteral([]string{"int", "int"}, "int")
	}
	return g.leaf(typ)
}

func (g *gen) freshArr(d int) *Node {
	n := N("arr")
	for i := 0; i < g.pick(3, "fan"); i++ {
		n.Kids = append(n.Kids, g.expr("int", d))
	}
	return n
}

func (g *gen) intExpr(d int) *Node {
	max := 12
	if g.cfg.ScopeOnly {
		max = 4
	}
	k := g.pick(max, "ik")
	if g.cfg.ScopeOnly && k < 2 && g.chance(2, "preferCall") {
		k = 2 + g.pick(2, "whichCall")
	}
	switch k {
	case 0, 1:
		op := rapid.SampledFrom([]string{"+", "-", "*"}).Draw(g.t, "iop")
		n := NPrim(op, g.expr("int", d), g.expr("int", d))
		if op == "+" && g.chance(4, "nary") {
			n.Kids = append(n.Kids, g.expr("int", d))
		}
		return n
	case 2:
		// call through a function value
		if vs := g.scope.visible("fn0"); len(vs) > 0 && g.chance(2, "fn0first") {
			g.feat("call-through-variable")
			return NCall(NVar(rapid.SampledFrom(vs).Draw(g.t, "f0v")))
		}
		if vs := g.scope.visible("fn1"); len(vs) > 0 {
			g.feat("call-through-variable")
			return NCall(NVar(rapid.SampledFrom(vs).Draw(g.t, "f1")), g.expr("int", d))
		}
		if vs := g.scope.visible("fn2"); len(vs) > 0 {
			g.feat("call-through-variable")
			return NCall(NVar(rapid.SampledFrom(vs).Draw(g.t, "f2")), g.expr("int", d), g.expr("int", d))
		}
		return g.leaf("int")
	case 3:
		if g.cfg.ScopeOnly {
			switch g.pick(3, "sck") {
			case 0:
				if vs := g.scope.visible("fn0"); len(vs) > 0 {
					g.feat("call-through-variable")
					return NCall(NVar(rapid.SampledFrom(vs).Draw(g.t, "f0")))
				}
			case 1:
				// call of a closure returned by a named function: ((mk ..))
				if c := g.callNamed("fn0", d); c != nil {
					g.feat("call-returned-closure")
					return NCall(c)
				}
				if c := g.callNamed("fn1", d); c != nil {
					g.feat("call-returned-closure")
					return NCall(c, g.expr("int", d))
				}
			}
		}
		// immediately applied function literal (computed callee)
		g.feat("computed-callee")
		return NCall(g.fnLiteral([]string{"int"}, "int"), g.expr("int", d))
	case 4:
		return NPrim("len", g.expr(rapid.SampledFrom([]string{"arr", "list", "str"}).Draw(g.t, "lent"), d))
	case 5:
		return NPrim("aget", g.expr("arr", d), g.expr("int", d), g.intLit())
	case 6:
		if vs := g.scope.visible("hash"); len(vs) > 0 {
			return NPrim("hget", NVar(rapid.SampledFrom(vs).Draw(g.t, "hv")), &Node{K: "key", S: rapid.SampledFrom([]string{"k1", "k2", "k3", "k4"}).Draw(g.t, "hk")}, g.intLit())
		}
		return g.leaf("int")
	case 7:
		g.feat("apply")
		if g.chance(2, "apply2") {
			return NPrim("apply", g.expr("fn2", d), N("arr", g.expr("int", d), g.expr("int", d)))
		}
		return NPrim("apply", g.expr("fn1", d), NPrim("list", g.expr("int", d)))
	case 8:
		return NPrim("first", NPrim("cons", g.expr("int", d), g.expr("list", d)))
	case 9:
		return NPrim("mod", g.expr("int", d), NInt(int64(1+g.pick(7, "modn"))))
	case 10:
		if g.cfg.PlantError && !g.planted && g.chance(6, "plant") {
			return g.plant(d)
		}
		if g.cfg.Probes {
			g.probeN++
			g.feat("probe")
			return &Node{K: "probe", I: int64(g.probeN)}
		}
		return g.leaf("int")
	}
	return g.leaf("int")
}

// plant produces one unambiguous error of int type position.
func (g *gen) plant(d int) *Node {
	g.planted = true
	g.feat("planted-error")
	switch g.pick(8, "plantk") {
	case 0:
		return NVar("unboundName")
	case 1:
		return NPrim("+", g.expr("int", d), NStr("a"))
	case 2:
		return NPrim("aget", N("arr", NInt(1), NInt(2)), NInt(5))
	case 3:
		return NPrim("/", g.expr("int", d), NInt(0))
	case 4:
		return N("begin", &Node{K: "assert", Kids: []*Node{NBool(false)}}, NInt(1))
	case 5:
		return N("begin", &Node{K: "stop", S: "planted stop"}, NInt(1))
	case 6:
		// wrong arity to a function literal
		return NCall(g.fnLiteral([]string{"int"}, "int"), NInt(1), NInt(2))
	default:
		// calling a non-function with arguments
		return NCall(NInt(3), NInt(4))
	}
}

// fnLiteral builds (fn [params] body) with a fresh lexical scope.
func (g *gen) fnLiteral(ptypes []string, ret string) *Node {
	g.feat("fn-literal")
	n := &Node{K: "fn"}
	savedLoops := g.loops
	g.loops = nil
	g.push()
	g.scope.isFn = true
	for _, pt := range ptypes {
		nm := g.freshName(pt, g.cfg.VarNames)
		for contains(n.Names, nm) {
			nm += "p"
		}
		n.Names = append(n.Names, nm)
		g.scope.vars[nm] = gvar{typ: pt}
	}
	if g.chance(3, "fnstmts") || (g.cfg.ScopeOnly && g.chance(2, "fnstmts2")) {
		n.Kids = append(n.Kids, g.bodyStmts(2)...)
	}
	d := g.cfg.MaxDepth - 2
	if d < 1 {
		d = 1
	}
	n.Kids = append(n.Kids, g.expr(ret, d))
	g.pop()
	g.loops = savedLoops
	return n
}

func contains(a []string, s string) bool {
	for _, x := range a {
		if x == s {
			return true
		}
	}
	return false
}

// callNamed generates a call of a defn'd function whose result type is typ.
func (g *gen) callNamed(typ string, d int) *Node {
	var cands []string
	seen := map[string]bool{}
	for c := g.scope; c != nil; c = c.parent {
		for n := range c.vars {
			if seen[n] {
				continue
			}
			seen[n] = true
			if w, _ := g.scope.lookup(n); w.typ == "defn" && w.sig.Ret == typ {
				cands = append(cands, n)
			}
		}
	}
	if len(cands) == 0 {
		return nil
	}
	sortStrings(cands)
	name := rapid.SampledFrom(cands).Draw(g.t, "callee")
	v, _ := g.scope.lookup(name)
	sig := v.sig
	g.feat("call-by-name")
	call := NCall(NVar(name))
	np := len(sig.Params)
	if sig.Variadic {
		np--
	}
	for i := 0; i < np; i++ {
		if i == 0 && sig.Rec {
			call.Kids = append(call.Kids, NInt(int64(g.pick(6, "recdepth"))))
			g.feat("recursion")
			continue
		}
		call.Kids = append(call.Kids, g.expr(sig.Params[i], d))
	}
	if sig.Variadic {
		extra := g.pick(4, "extra")
		if extra == 0 {
			g.feat("variadic-0-extra")
		} else {
			g.feat("variadic->0-extra")
		}
		for i := 0; i < extra; i++ {
			call.Kids = append(call.Kids, g.expr("int", d))
		}
	}
	return call
}

// bodyStmts: 0..3 statements whose values are discarded.
func (g *gen) bodyStmts(d int) []*Node {
	var out []*Node
	for i := 0; i < g.pick(4, "nstmt") && g.budget > 0; i++ {
		out = append(out, g.stmt(d))
	}
	return out
}

func (g *gen) stmt(d int) *Node {
	g.budget--
	max := 10
	if g.cfg.ScopeOnly {
		max = 5
	}
	k := g.pick(max, "stmtk")
	if !g.defAllowed() && (k == 0 || k == 1 || k == 7) {
		k = 9
	}
	switch k {
	case 0, 1:
		// def of a new (or same-typed) name in the innermost scope
		typ := rapid.SampledFrom([]string{"int", "int", "int", "bool", "str", "arr", "list", "hash", "fn1", "float"}).Draw(g.t, "dt")
		if g.cfg.ScopeOnly {
			typ = rapid.SampledFrom([]string{"int", "int", "int", "fn1", "fn0", "fn0", "ffn0"}).Draw(g.t, "dts")
		}
		if g.scope.isLoop && !scalarType(typ) {
			// re-executed on every iteration with content-dependent dynamic types
			typ = "int"
		}
		v := g.expr(typ, d)
		// a def that shadows an outer name of another type would change, for closures already
		// created in this scope, what that name means (and with it the dynamic types of their
		// results); shadowing by let bindings and parameters is static and unrestricted
		g.defMode = true
		nm := g.freshName(typ, g.cfg.VarNames)
		g.defMode = false
		g.scope.vars[nm] = gvar{typ: typ}
		g.feat("def")
		return NDef(nm, v)
	case 2:
		// set of a visible variable
		typ := rapid.SampledFrom([]string{"int", "int", "bool", "str"}).Draw(g.t, "st")
		if g.cfg.ScopeOnly {
			typ = "int"
		}
		if vs := g.settable(typ); len(vs) > 0 {
			g.feat("set")
			return NSet(rapid.SampledFrom(vs).Draw(g.t, "sv"), g.expr(typ, d))
		}
		return NTrace(g.expr("int", d))
	case 3:
		return g.forLoop(d)
	case 4:
		// break / continue when inside a loop of the current function
		if len(g.loops) > 0 {
			kind := rapid.SampledFrom([]string{"break", "continue"}).Draw(g.t, "bc")
			n := &Node{K: kind}
			lbl := g.loops[g.pick(len(g.loops), "whichloop")]
			if lbl != "" && g.chance(2, "uselabel") {
				n.Label = lbl
				g.feat("labelled-" + kind)
			} else {
				// unlabelled targets the innermost loop
				g.feat(kind)
			}
			// guard it so that loops still do work
			return N("cond", g.expr("bool", d), n, NNil())
		}
		return NTrace(g.expr("int", d))
	case 5:
		if vs := g.scope.visible("hash"); len(vs) > 0 {
			g.feat("hset")
			return NPrim("hset", NVar(rapid.SampledFrom(vs).Draw(g.t, "hsv")), &Node{K: "key", S: rapid.SampledFrom([]string{"k1", "k2", "k4"}).Draw(g.t, "hsk")}, g.expr("int", d))
		}
		return NTrace(g.expr("int", d))
	case 6:
		if vs := g.scope.visible("hash"); len(vs) > 0 && g.chance(2, "hdel") {
			return NPrim("hdel", NVar(rapid.SampledFrom(vs).Draw(g.t, "hdv")), &Node{K: "key", S: rapid.SampledFrom([]string{"k1", "k2"}).Draw(g.t, "hdk")})
		}
		return NTrace(g.expr("str", d))
	case 7:
		return g.defn(d)
	}
	return NTrace(g.expr("int", d))
}

func (g *gen) forLoop(d int) *Node {
	g.feat("for")
	n := &Node{K: "for"}
	if g.chance(3, "label") {
		g.nextLbl++
		n.Label = fmt.Sprintf("L%d", g.nextLbl)
		g.feat("labelled-for")
	}
	g.condDepth++ // the body may run zero times
	defer func() { g.condDepth-- }()
	g.push()
	g.scope.isLoop = true
	iv := g.freshName("int", []string{"i", "j", "k"})
	g.scope.vars[iv] = gvar{typ: "int"}
	bound := int64(g.pick(5, "bound"))
	n.Kids = append(n.Kids, NDef(iv, NInt(0)), NPrim("<", NVar(iv), NInt(bound)), NDef(iv, NPrim("+", NVar(iv), NInt(1))))
	g.loops = append(g.loops, n.Label)
	if len(g.loops) >= 2 {
		g.feat("nested-for")
	}
	body := g.bodyStmts(d + 1)
	if len(body) == 0 {
		body = []*Node{NTrace(NVar(iv))}
	}
	if g.chance(2, "jump") {
		// a guarded break/continue, possibly buried under let / newScope / cond
		kind := rapid.SampledFrom([]string{"break", "continue"}).Draw(g.t, "jk")
		j := &Node{K: kind}
		lbl := g.loops[g.pick(len(g.loops), "jloop")]
		if lbl != "" {
			j.Label = lbl
			g.feat("labelled-" + kind)
		} else {
			g.feat(kind)
		}
		guard := NPrim(rapid.SampledFrom([]string{"==", ">", "<"}).Draw(g.t, "jcmp"), NVar(iv), NInt(int64(g.pick(3, "jat"))))
		var wrapped *Node = N("cond", guard, j, NNil())
		switch g.pick(4, "jform") {
		case 0:
			// the jump itself as an operand of and / or
			g.feat("jump-as-and-or-operand")
			wrapped = N("and", guard, j)
		case 1:
			g.feat("jump-as-and-or-operand")
			wrapped = N("or", NPrim("not", guard), j, NInt(0))
		}
		for w := g.pick(3, "jwrap"); w > 0; w-- {
			g.feat("jump-crosses-scope")
			switch g.pick(5, "jwk") {
			case 3, 4:
				// the jump is taken from inside a let / letseq binding right-hand side: the let's own
				// scope is already open there and must be popped by the jump
				g.feat("jump-in-let-binding")
				k := "let"
				if g.chance(2, "jlseq") {
					k = "letseq"
				}
				wrapped = &Node{K: k, Names: []string{"t8", "t9"}, Kids: []*Node{NInt(2), wrapped, NTrace(NVar(iv))}}
			case 0:
				wrapped = &Node{K: "let", Names: []string{"t9"}, Kids: []*Node{NInt(1), wrapped}}
			case 1:
				wrapped = N("newScope", NTrace(NVar(iv)), wrapped)
			default:
				wrapped = N("cond", NBool(true), wrapped, NNil())
			}
		}
		pos := g.pick(len(body)+1, "jpos")
		body = append(body[:pos:pos], append([]*Node{wrapped}, body[pos:]...)...)
	}
	n.Kids = append(n.Kids, body...)
	g.loops = g.loops[:len(g.loops)-1]
	g.pop()
	return n
}

// defn: a named function; sometimes recursive, sometimes variadic.
func (g *gen) defn(d int) *Node { return g.defnRet(d, "") }

func (g *gen) defnRet(d int, forceRet string) *Node {
	g.feat("defn")
	g.defMode = true
	name := g.freshName("defn", g.cfg.FnNames)
	g.defMode = false
	if contains(g.fnStack, name) {
		// An inner function that shadows the name of a function it is nested in. zygo decides
		// "self tail call" by name when it compiles; an inner defn that is compiled later (inside
		// a call argument) is not seen then (known finding), so this shape is tagged or avoided.
		if !g.keepKnown("inner-defn-shadows-enclosing-function", 6) {
			for i := 0; contains(g.fnStack, name); i++ {
				name = fmt.Sprintf("%s%d", g.cfg.FnNames[0], i)
			}
		}
	}
	g.fnStack = append(g.fnStack, name)
	defer func() { g.fnStack = g.fnStack[:len(g.fnStack)-1] }()
	n := &Node{K: "defn", S: name}
	sig := &fnsig{Ret: rapid.SampledFrom([]string{"int", "int", "int", "bool", "arr"}).Draw(g.t, "ret")}
	if g.cfg.ScopeOnly {
		sig.Ret = rapid.SampledFrom([]string{"int", "int", "fn0", "fn0", "fn1", "ffn0"}).Draw(g.t, "sret")
	}
	if forceRet != "" {
		sig.Ret = forceRet
	}
	shape := g.pick(4, "fshape")
	np := 1 + g.pick(2, "np")
	for i := 0; i < np; i++ {
		pt := "int"
		if i > 0 && !g.cfg.ScopeOnly {
			pt = rapid.SampledFrom([]string{"int", "int", "bool", "fn1", "arr"}).Draw(g.t, "pt")
		}
		if i > 0 && g.cfg.ScopeOnly {
			pt = rapid.SampledFrom([]string{"int", "fn0", "fn1"}).Draw(g.t, "spt")
		}
		sig.Params = append(sig.Params, pt)
		sig.Lazy = append(sig.Lazy, false)
	}
	if shape == 1 && !g.cfg.ScopeOnly {
		sig.Variadic = true
		sig.Params = append(sig.Params, "list")
		sig.Lazy = append(sig.Lazy, false)
		g.feat("variadic-defn")
	}
	if shape == 2 && sig.Ret == "int" {
		sig.Rec = true
	}
	// the function's own name is visible in its body (recursion) and after the defn
	g.scope.vars[name] = gvar{typ: "defn", sig: sig}
	savedLoops := g.loops
	g.loops = nil
	g.push()
	g.scope.isFn = true
	for i, pt := range sig.Params {
		pn := g.freshName(pt, g.cfg.VarNames)
		for contains(n.Names, pn) {
			pn += "p"
		}
		n.Names = append(n.Names, pn)
		g.scope.vars[pn] = gvar{typ: pt}
		_ = i
	}
	n.Var = sig.Variadic
	if sig.Rec {
		// (cond (<= n 0) base (op (f (- n 1) ...) step))
		p0 := n.Names[0]
		rec := NCall(NVar(name), NPrim("-", NVar(p0), NInt(1)))
		for i := 1; i < len(sig.Params); i++ {
			rec.Kids = append(rec.Kids, NVar(n.Names[i]))
		}
		saved := g.scope.parent.vars[name]
		// inside the body only the structured recursive call is made
		delete(g.scope.parent.vars, name)
		base := g.expr("int", d+1)
		step := g.expr("int", d+1)
		g.scope.parent.vars[name] = saved
		op := rapid.SampledFrom([]string{"+", "*", "-"}).Draw(g.t, "recop")
		var stepExpr *Node
		switch g.pick(9, "recshape") {
		case 6:
			// self call in a NON-final arm of and/or (not a tail position)
			g.feat("rec-in-nonfinal-and-or-arm")
			stepExpr = N(rapid.SampledFrom([]string{"and", "or"}).Draw(g.t, "recsc"), rec, step)
		case 7:
			g.feat("rec-in-nonfinal-and-or-arm")
			stepExpr = N("and", NBool(true), rec, step)
		case 8:
			// non-final statement of a begin / newScope
			g.feat("rec-nonfinal-in-begin")
			stepExpr = N(rapid.SampledFrom([]string{"begin", "newScope"}).Draw(g.t, "recnf"), NTrace(rec), step)
		case 0:
			// self call in a let binding (not a tail position)
			g.feat("rec-in-let-binding")
			stepExpr = &Node{K: rapid.SampledFrom([]string{"let", "letseq"}).Draw(g.t, "reclet"), Names: []string{"r9"}, Kids: []*Node{rec, NPrim(op, NVar("r9"), step)}}
		case 1:
			// self call inside an array literal
			g.feat("rec-in-array-literal")
			stepExpr = NPrim(op, NPrim("aget", N("arr", rec), NInt(0), NInt(0)), step)
		case 2:
			// self call as the last form of begin / newScope after an effect (tail position)
			g.feat("rec-tail-in-begin")
			stepExpr = N(rapid.SampledFrom([]string{"begin", "newScope"}).Draw(g.t, "recseq"), NTrace(NVar(p0)), rec)
		case 3:
			// self call as last arm of and/or (tail position)
			g.feat("rec-tail-in-and-or")
			stepExpr = N("or", NBool(false), rec)
		default:
			stepExpr = NPrim(op, rec, step)
		}
		n.Kids = append(n.Kids, N("cond", NPrim("<=", NVar(p0), NInt(0)), base, stepExpr))
	} else {
		saved := g.scope.parent.vars[name]
		delete(g.scope.parent.vars, name) // no accidental unbounded recursion
		n.Kids = append(n.Kids, g.bodyStmts(d+1)...)
		n.Kids = append(n.Kids, g.expr(sig.Ret, d+1))
		g.scope.parent.vars[name] = saved
	}
	g.pop()
	g.loops = savedLoops
	return n
}

// program: top-level forms; the last one is an expression whose value is the result.
func (g *gen) program() []*Node {
	var forms []*Node
	if g.cfg.ScopeOnly {
		// closure factories whose results are bound at top level and called after the
		// factory returned, interleaved, so that captured variables must outlive and stay
		// separate per activation
		var insts [][2]string
		for k := 0; k < 1+g.pick(3, "nmakers"); k++ {
			ret := rapid.SampledFrom([]string{"fn0", "fn0", "fn1", "ffn0", "ffn0"}).Draw(g.t, "mret")
			forms = append(forms, g.defnRet(0, ret))
			for j := 0; j < 1+g.pick(2, "ninst"); j++ {
				if c := g.callNamed(ret, 1); c != nil {
					nm := g.freshName(ret, g.cfg.VarNames)
					g.scope.vars[nm] = gvar{typ: ret}
					forms = append(forms, NDef(nm, c))
					insts = append(insts, [2]string{nm, ret})
					if ret == "ffn0" && g.chance(2, "unwrap") {
						nm2 := g.freshName("fn0", g.cfg.VarNames)
						g.scope.vars[nm2] = gvar{typ: "fn0"}
						forms = append(forms, NDef(nm2, NCall(NVar(nm))))
						insts = append(insts, [2]string{nm2, "fn0"})
					}
				}
			}
		}
		for k := 0; k < 2+g.pick(5, "nuses"); k++ {
			if len(insts) > 0 && !g.chance(4, "freeUse") {
				in := insts[g.pick(len(insts), "inst")]
				call := NCall(NVar(in[0]))
				if in[1] == "fn1" {
					call.Kids = append(call.Kids, g.intLit())
				}
				if in[1] == "ffn0" {
					call = NCall(call)
					g.feat("instance-of-fn-returning-fn-called")
				}
				g.feat("instance-called-after-factory-returned")
				forms = append(forms, NTrace(call))
			} else {
				forms = append(forms, NTrace(g.expr("int", 2)))
			}
		}
	}
	nf := 1 + g.pick(7, "nforms")
	for i := 0; i < nf && g.budget > 0; i++ {
		switch g.pick(4, "topk") {
		case 0:
			forms = append(forms, g.defn(0))
		default:
			forms = append(forms, g.stmt(0))
		}
	}
	finalTypes := []string{"int", "int", "bool", "str", "arr", "list"}
	if g.cfg.ScopeOnly {
		finalTypes = []string{"int"}
	}
	forms = append(forms, g.expr(rapid.SampledFrom(finalTypes).Draw(g.t, "finalt"), 0))
	g.finish(forms)
	return forms
}

// finish applies the exclusions-by-construction for known findings.
func (g *gen) finish(forms []*Node) {
	if bad := breaksCrossingCallArgs(forms); len(bad) > 0 {
		if !g.keepKnown("break-inside-call-argument", 20) {
			for _, n := range bad {
				n.K, n.Label = "nil", ""
			}
		}
	}
}
