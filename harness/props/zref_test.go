package props

import (
	"errors"
	"fmt"
	"math"
	"strconv"
	"strings"
)

// zref: a direct, environment-passing reference evaluator R of the core
// language. It shares no code with zygo's lexer, parser, generator or VM:
// no bytecode, no stacks, no tail-call optimisation. Semantics are the ones
// the property statements give (C02, C03, C05, C09, C16).

type rval interface{}

type rnil struct{}
type rsym struct{ name string }
type rarr struct{ elems []rval }
type rlist struct{ elems []rval } // proper list; the empty list is rnil
type rhash struct {
	keys []string
	vals map[string]rval
}
type rclos struct {
	fn  *Node
	env *rframe
	act int // activation that created it (0 = top level)
}
type rprim struct{ name string }
type rthunk struct {
	expr   *Node
	env    *rframe
	forced bool
	val    rval
}
type rcode struct{ n *Node } // source expression returned by substitute

type rframe struct {
	vars   map[string]rval
	parent *rframe
}

func newFrame(parent *rframe) *rframe { return &rframe{vars: map[string]rval{}, parent: parent} }

func (f *rframe) lookup(name string) (rval, *rframe, bool) {
	for c := f; c != nil; c = c.parent {
		if v, ok := c.vars[name]; ok {
			return v, c, true
		}
	}
	return nil, nil, false
}

var errRefBudget = errors.New("reference evaluator: step budget exhausted")

type rerr struct {
	kind string // unbound arity type index divzero assert stop probe notfn other
	msg  string
}

func (e *rerr) Error() string { return e.kind + ": " + e.msg }

type rctl struct {
	brk   bool
	label string
}

func (c *rctl) Error() string { return "break/continue outside loop" }

type refEval struct {
	global     *rframe
	trace      []string
	steps      int
	budget     int
	probeCalls int
	failAt     int // probe call number that fails (0 = never)

	// instrumentation for non-triviality rules
	actStack     []int
	nextAct      int
	escapedCalls int // calls of a closure whose creating activation has already returned
	shadowUses   int // variable uses where the name is bound in >= 2 frames on the chain
	maxDepth     int // deepest call nesting reached
	caught       int // failures contained by the host function try
}

func (r *refEval) curAct() int {
	if len(r.actStack) == 0 {
		return 0
	}
	return r.actStack[len(r.actStack)-1]
}

func newRef(budget int) *refEval {
	return &refEval{global: newFrame(nil), budget: budget}
}

var refPrims = map[string]bool{"+": true, "-": true, "*": true, "/": true, "mod": true, "<": true, ">": true, "<=": true, ">=": true, "==": true, "!=": true,
	"not": true, "concat": true, "append": true, "len": true, "first": true, "rest": true, "second": true, "cons": true, "list": true, "array": true, "aget": true, "aset": true,
	"hget": true, "hset": true, "hdel": true, "keys": true, "map": true, "apply": true, "str": true, "force": true, "substitute": true, "hash": true, "func?": true, "try": true}

func rtruthy(v rval) bool {
	switch x := v.(type) {
	case bool:
		return x
	case int64:
		return x != 0
	case rnil:
		return false
	}
	return true
}

func (r *refEval) tick() error {
	r.steps++
	if r.steps > r.budget {
		return errRefBudget
	}
	return nil
}

// RunProgram evaluates the forms in order in the global frame; returns the
// value of the last one or the first error.
func (r *refEval) RunProgram(forms []*Node) (rval, error) {
	var last rval = rnil{}
	for _, f := range forms {
		v, err := r.eval(f, r.global)
		if err != nil {
			if _, isCtl := err.(*rctl); isCtl {
				return nil, &rerr{"other", "break/continue outside loop"}
			}
			return nil, err
		}
		last = v
	}
	return last, nil
}

func (r *refEval) evalBody(body []*Node, env *rframe) (rval, error) {
	var last rval = rnil{}
	for _, b := range body {
		v, err := r.eval(b, env)
		if err != nil {
			return nil, err
		}
		last = v
	}
	return last, nil
}

func (r *refEval) eval(n *Node, env *rframe) (rval, error) {
	if err := r.tick(); err != nil {
		return nil, err
	}
	switch n.K {
	case "int":
		return n.I, nil
	case "float":
		return n.F, nil
	case "str":
		return n.S, nil
	case "bool":
		return n.B, nil
	case "nil":
		return rnil{}, nil
	case "key":
		return rsym{n.S}, nil
	case "var":
		if v, fr, ok := env.lookup(n.S); ok {
			for c := fr.parent; c != nil; c = c.parent {
				if _, also := c.vars[n.S]; also {
					r.shadowUses++
					break
				}
			}
			return v, nil
		}
		if refPrims[n.S] {
			return rprim{n.S}, nil
		}
		if n.S == "nil" {
			return rnil{}, nil
		}
		return nil, &rerr{"unbound", n.S}
	case "def":
		v, err := r.eval(n.Kids[0], env)
		if err != nil {
			return nil, err
		}
		env.vars[n.S] = v
		return v, nil
	case "set":
		v, err := r.eval(n.Kids[0], env)
		if err != nil {
			return nil, err
		}
		if _, fr, ok := env.lookup(n.S); ok {
			fr.vars[n.S] = v
		} else {
			env.vars[n.S] = v
		}
		return v, nil
	case "let", "letseq":
		fr := newFrame(env)
		k := len(n.Names)
		if n.K == "let" {
			vals := make([]rval, k)
			for i := 0; i < k; i++ {
				v, err := r.eval(n.Kids[i], fr)
				if err != nil {
					return nil, err
				}
				vals[i] = v
			}
			for i := 0; i < k; i++ {
				fr.vars[n.Names[i]] = vals[i]
			}
		} else {
			for i := 0; i < k; i++ {
				v, err := r.eval(n.Kids[i], fr)
				if err != nil {
					return nil, err
				}
				fr.vars[n.Names[i]] = v
			}
		}
		return r.evalBody(n.Kids[k:], fr)
	case "newScope":
		return r.evalBody(n.Kids, newFrame(env))
	case "begin":
		return r.evalBody(n.Kids, env)
	case "cond":
		for i := 0; i+1 < len(n.Kids); i += 2 {
			p, err := r.eval(n.Kids[i], env)
			if err != nil {
				return nil, err
			}
			if rtruthy(p) {
				return r.eval(n.Kids[i+1], env)
			}
		}
		return r.eval(n.Kids[len(n.Kids)-1], env)
	case "and", "or":
		var last rval = rnil{}
		for i, k := range n.Kids {
			v, err := r.eval(k, env)
			if err != nil {
				return nil, err
			}
			last = v
			if i < len(n.Kids)-1 {
				if n.K == "and" && !rtruthy(v) {
					return v, nil
				}
				if n.K == "or" && rtruthy(v) {
					return v, nil
				}
			}
		}
		return last, nil
	case "for":
		fr := newFrame(env)
		if _, err := r.eval(n.Kids[0], fr); err != nil {
			return nil, err
		}
	loop:
		for {
			if err := r.tick(); err != nil {
				return nil, err
			}
			t, err := r.eval(n.Kids[1], fr)
			if err != nil {
				return nil, err
			}
			if !rtruthy(t) {
				break
			}
			for _, b := range n.Kids[3:] {
				_, err := r.eval(b, fr)
				if err != nil {
					if c, ok := err.(*rctl); ok && (c.label == "" || c.label == n.Label) {
						if c.brk {
							break loop
						}
						break // continue: go to advance
					}
					return nil, err
				}
			}
			if _, err := r.eval(n.Kids[2], fr); err != nil {
				return nil, err
			}
		}
		return rnil{}, nil
	case "break":
		return nil, &rctl{brk: true, label: n.Label}
	case "continue":
		return nil, &rctl{brk: false, label: n.Label}
	case "fn":
		return &rclos{fn: n, env: env, act: r.curAct()}, nil
	case "defn":
		env.vars[n.S] = &rclos{fn: n, env: env, act: r.curAct()}
		return rnil{}, nil
	case "funcdecl":
		c := &rclos{fn: n, env: env, act: r.curAct()}
		env.vars[n.S] = c
		return c, nil
	case "call":
		callee, err := r.eval(n.Kids[0], env)
		if err != nil {
			return nil, err
		}
		return r.callWithArgNodes(callee, n.Kids[1:], env)
	case "prim":
		// a user binding of the same name shadows the builtin
		if v, _, ok := env.lookup(n.S); ok {
			return r.callWithArgNodes(v, n.Kids, env)
		}
		args := make([]rval, len(n.Kids))
		for i, k := range n.Kids {
			v, err := r.eval(k, env)
			if err != nil {
				return nil, err
			}
			args[i] = v
		}
		return r.applyPrim(n.S, args)
	case "arr":
		a := &rarr{}
		for _, k := range n.Kids {
			v, err := r.eval(k, env)
			if err != nil {
				return nil, err
			}
			a.elems = append(a.elems, v)
		}
		return a, nil
	case "hashlit":
		h := &rhash{vals: map[string]rval{}}
		for i, k := range n.Kids {
			v, err := r.eval(k, env)
			if err != nil {
				return nil, err
			}
			h.set("y:"+n.Names[i], v)
		}
		return h, nil
	case "trace":
		v, err := r.eval(n.Kids[0], env)
		if err != nil {
			return nil, err
		}
		r.trace = append(r.trace, rdump(v))
		return v, nil
	case "probe":
		r.probeCalls++
		if r.failAt > 0 && r.probeCalls == r.failAt {
			return nil, &rerr{"probe", fmt.Sprintf("probe %d failed on call %d", n.I, r.probeCalls)}
		}
		return n.I, nil
	case "assert":
		v, err := r.eval(n.Kids[0], env)
		if err != nil {
			return nil, err
		}
		if !rtruthy(v) {
			return nil, &rerr{"assert", "assertion failed"}
		}
		return rnil{}, nil
	case "islazy":
		v, err := r.eval(n.Kids[0], env)
		if err != nil {
			return nil, err
		}
		_, isThunk := v.(*rthunk)
		return isThunk, nil
	case "stop":
		return nil, &rerr{"stop", n.S}
	}
	return nil, &rerr{"other", "reference evaluator: unknown node " + n.K}
}

func (h *rhash) set(k string, v rval) {
	if _, ok := h.vals[k]; !ok {
		h.keys = append(h.keys, k)
	}
	h.vals[k] = v
}
func (h *rhash) del(k string) {
	if _, ok := h.vals[k]; !ok {
		return
	}
	delete(h.vals, k)
	for i, x := range h.keys {
		if x == k {
			h.keys = append(h.keys[:i:i], h.keys[i+1:]...)
			break
		}
	}
}

// callWithArgNodes: callee already evaluated; strict arguments are evaluated
// once each, left to right; lazy parameters receive a thunk.
func (r *refEval) callWithArgNodes(callee rval, argNodes []*Node, env *rframe) (rval, error) {
	switch f := callee.(type) {
	case *rclos:
		args := make([]rval, len(argNodes))
		for i, an := range argNodes {
			if f.isLazyArg(i) {
				args[i] = &rthunk{expr: an, env: env}
				continue
			}
			v, err := r.eval(an, env)
			if err != nil {
				return nil, err
			}
			args[i] = v
		}
		return r.applyClosure(f, args)
	case rprim:
		args := make([]rval, len(argNodes))
		for i, an := range argNodes {
			v, err := r.eval(an, env)
			if err != nil {
				return nil, err
			}
			args[i] = v
		}
		return r.applyPrim(f.name, args)
	}
	if len(argNodes) == 0 {
		// a non-function in call position with no arguments evaluates to itself
		return callee, nil
	}
	return nil, &rerr{"notfn", "call of a non-function"}
}

func (c *rclos) isLazyArg(i int) bool {
	names := c.fn.Names
	if c.fn.Var && i >= len(names)-1 {
		return false
	}
	return i < len(names) && strings.HasPrefix(names[i], "#")
}

func (r *refEval) applyClosure(c *rclos, args []rval) (rval, error) {
	if err := r.tick(); err != nil {
		return nil, err
	}
	names := c.fn.Names
	fr := newFrame(c.env)
	if c.fn.Var {
		fixed := len(names) - 1
		if len(args) < fixed {
			return nil, &rerr{"arity", "too few arguments"}
		}
		for i := 0; i < fixed; i++ {
			fr.vars[names[i]] = args[i]
		}
		if len(args) > fixed {
			fr.vars[names[fixed]] = &rlist{elems: append([]rval{}, args[fixed:]...)}
		} else {
			fr.vars[names[fixed]] = rnil{}
		}
	} else {
		if len(args) != len(names) {
			return nil, &rerr{"arity", "wrong number of arguments"}
		}
		for i := range names {
			fr.vars[names[i]] = args[i]
		}
	}
	if c.act != 0 {
		live := false
		for _, a := range r.actStack {
			if a == c.act {
				live = true
			}
		}
		if !live {
			r.escapedCalls++
		}
	}
	r.nextAct++
	r.actStack = append(r.actStack, r.nextAct)
	if len(r.actStack) > r.maxDepth {
		r.maxDepth = len(r.actStack)
	}
	v, err := r.evalBody(c.fn.Kids, fr)
	r.actStack = r.actStack[:len(r.actStack)-1]
	if err != nil {
		if _, isCtl := err.(*rctl); isCtl {
			return nil, &rerr{"other", "break/continue escaped a function"}
		}
		return nil, err
	}
	return v, nil
}

// applyValue: call with already evaluated values (map, apply).
func (r *refEval) applyValue(f rval, args []rval) (rval, error) {
	switch c := f.(type) {
	case *rclos:
		// lazy parameters receive the value wrapped as an already-forced thunk
		as := make([]rval, len(args))
		for i, a := range args {
			if c.isLazyArg(i) {
				as[i] = &rthunk{forced: true, val: a}
			} else {
				as[i] = a
			}
		}
		return r.applyClosure(c, as)
	case rprim:
		return r.applyPrim(c.name, args)
	}
	return nil, &rerr{"notfn", "not a function"}
}

func (r *refEval) force(v rval) (rval, error) {
	t, ok := v.(*rthunk)
	if !ok {
		return v, nil
	}
	if t.forced {
		return t.val, nil
	}
	val, err := r.eval(t.expr, t.env)
	if err != nil {
		return nil, err
	}
	t.forced, t.val = true, val
	return val, nil
}

func numPair(a, b rval) (ai, bi int64, af, bf float64, kind string) {
	switch x := a.(type) {
	case int64:
		switch y := b.(type) {
		case int64:
			return x, y, 0, 0, "int"
		case float64:
			return 0, 0, float64(x), y, "float"
		}
	case float64:
		switch y := b.(type) {
		case int64:
			return 0, 0, x, float64(y), "float"
		case float64:
			return 0, 0, x, y, "float"
		}
	}
	return 0, 0, 0, 0, ""
}

func (r *refEval) arith(op string, args []rval) (rval, error) {
	if len(args) < 1 {
		return nil, &rerr{"arity", op}
	}
	acc := args[0]
	if len(args) == 1 {
		switch acc.(type) {
		case int64, float64:
			if op == "-" || op == "*" {
				return nil, &rerr{"other", "unary " + op + " is outside the reference language"}
			}
			return acc, nil
		}
		return nil, &rerr{"type", op}
	}
	for _, b := range args[1:] {
		ai, bi, af, bf, kind := numPair(acc, b)
		switch kind {
		case "int":
			switch op {
			case "+":
				acc = ai + bi
			case "-":
				acc = ai - bi
			case "*":
				acc = ai * bi
			case "/":
				if bi == 0 {
					return nil, &rerr{"divzero", "integer division by zero"}
				}
				if ai%bi == 0 {
					acc = ai / bi
				} else {
					acc = float64(ai) / float64(bi)
				}
			}
		case "float":
			switch op {
			case "+":
				acc = af + bf
			case "-":
				acc = af - bf
			case "*":
				acc = af * bf
			case "/":
				acc = af / bf
			}
		default:
			return nil, &rerr{"type", op + " on non-numbers"}
		}
	}
	return acc, nil
}

func (r *refEval) compare(op string, a, b rval) (rval, error) {
	var sign int
	nan := false
	ai, bi, af, bf, kind := numPair(a, b)
	switch kind {
	case "int":
		switch {
		case ai < bi:
			sign = -1
		case ai > bi:
			sign = 1
		}
	case "float":
		switch {
		case math.IsNaN(af) || math.IsNaN(bf):
			nan = true
		case af < bf:
			sign = -1
		case af > bf:
			sign = 1
		}
	default:
		sa, oka := a.(string)
		sb, okb := b.(string)
		ba, okba := a.(bool)
		bb, okbb := b.(bool)
		switch {
		case oka && okb:
			sign = strings.Compare(sa, sb)
		case okba && okbb:
			if ba != bb {
				if ba {
					sign = 1
				} else {
					sign = -1
				}
			}
		default:
			if _, isNil := a.(rnil); isNil {
				return nil, &rerr{"other", "comparison with nil is outside the reference language"}
			}
			if _, isNil := b.(rnil); isNil {
				return nil, &rerr{"other", "comparison with nil is outside the reference language"}
			}
			return nil, &rerr{"type", "cannot compare"}
		}
	}
	if nan {
		return op == "!=", nil
	}
	switch op {
	case "<":
		return sign < 0, nil
	case "<=":
		return sign <= 0, nil
	case ">":
		return sign > 0, nil
	case ">=":
		return sign >= 0, nil
	case "==":
		return sign == 0, nil
	case "!=":
		return sign != 0, nil
	}
	return nil, &rerr{"other", op}
}

func keyName(v rval) (string, bool) {
	switch k := v.(type) {
	case rsym:
		return "y:" + k.name, true
	case string:
		return "s:" + k, true
	case int64:
		return "i:" + strconv.FormatInt(k, 10), true
	}
	return "", false
}

func (r *refEval) applyPrim(name string, args []rval) (rval, error) {
	if err := r.tick(); err != nil {
		return nil, err
	}
	argn := func(n int) error {
		if len(args) != n {
			return &rerr{"arity", name}
		}
		return nil
	}
	switch name {
	case "+", "-", "*", "/":
		return r.arith(name, args)
	case "mod":
		if err := argn(2); err != nil {
			return nil, err
		}
		a, oka := args[0].(int64)
		b, okb := args[1].(int64)
		if !oka || !okb {
			return nil, &rerr{"type", "mod"}
		}
		if b == 0 {
			return nil, &rerr{"divzero", "mod by zero"}
		}
		return a % b, nil
	case "<", ">", "<=", ">=", "==", "!=":
		if err := argn(2); err != nil {
			return nil, err
		}
		return r.compare(name, args[0], args[1])
	case "not":
		if err := argn(1); err != nil {
			return nil, err
		}
		return !rtruthy(args[0]), nil
	case "list":
		if len(args) == 0 {
			return rnil{}, nil
		}
		return &rlist{elems: append([]rval{}, args...)}, nil
	case "array":
		return &rarr{elems: append([]rval{}, args...)}, nil
	case "hash":
		if len(args)%2 != 0 {
			return nil, &rerr{"arity", "hash"}
		}
		h := &rhash{vals: map[string]rval{}}
		for i := 0; i < len(args); i += 2 {
			k, ok := keyName(args[i])
			if !ok {
				return nil, &rerr{"type", "hash key"}
			}
			h.set(k, args[i+1])
		}
		return h, nil
	case "cons":
		if err := argn(2); err != nil {
			return nil, err
		}
		switch t := args[1].(type) {
		case rnil:
			return &rlist{elems: []rval{args[0]}}, nil
		case *rlist:
			return &rlist{elems: append([]rval{args[0]}, t.elems...)}, nil
		}
		return nil, &rerr{"other", "cons onto a non-list is outside the reference language"}
	case "first":
		if err := argn(1); err != nil {
			return nil, err
		}
		switch t := args[0].(type) {
		case *rlist:
			return t.elems[0], nil
		case *rarr:
			if len(t.elems) == 0 {
				return nil, &rerr{"index", "first of empty array"}
			}
			return t.elems[0], nil
		}
		return nil, &rerr{"type", "first"}
	case "second":
		if err := argn(1); err != nil {
			return nil, err
		}
		switch t := args[0].(type) {
		case *rlist:
			if len(t.elems) < 2 {
				return nil, &rerr{"index", "second"}
			}
			return t.elems[1], nil
		case *rarr:
			if len(t.elems) < 2 {
				return nil, &rerr{"index", "second"}
			}
			return t.elems[1], nil
		}
		return nil, &rerr{"type", "second"}
	case "rest":
		if err := argn(1); err != nil {
			return nil, err
		}
		switch t := args[0].(type) {
		case rnil:
			return rnil{}, nil
		case *rlist:
			if len(t.elems) <= 1 {
				return rnil{}, nil
			}
			return &rlist{elems: append([]rval{}, t.elems[1:]...)}, nil
		case *rarr:
			if len(t.elems) == 0 {
				return t, nil
			}
			return &rarr{elems: append([]rval{}, t.elems[1:]...)}, nil
		}
		return nil, &rerr{"type", "rest"}
	case "len":
		if err := argn(1); err != nil {
			return nil, err
		}
		switch t := args[0].(type) {
		case rnil:
			return int64(0), nil
		case *rarr:
			return int64(len(t.elems)), nil
		case *rlist:
			return int64(len(t.elems)), nil
		case string:
			return int64(len(t)), nil
		case *rhash:
			return int64(len(t.keys)), nil
		}
		return nil, &rerr{"type", "len"}
	case "append":
		if err := argn(2); err != nil {
			return nil, err
		}
		switch t := args[0].(type) {
		case *rarr:
			return &rarr{elems: append(append([]rval{}, t.elems...), args[1])}, nil
		case string:
			if s, ok := args[1].(string); ok {
				return t + s, nil
			}
			return nil, &rerr{"type", "append to string"}
		}
		return nil, &rerr{"type", "append"}
	case "concat":
		if len(args) < 1 {
			return nil, &rerr{"arity", "concat"}
		}
		switch t := args[0].(type) {
		case string:
			out := t
			for _, a := range args[1:] {
				s, ok := a.(string)
				if !ok {
					return nil, &rerr{"type", "concat"}
				}
				out += s
			}
			return out, nil
		case *rarr:
			out := &rarr{elems: append([]rval{}, t.elems...)}
			for _, a := range args[1:] {
				x, ok := a.(*rarr)
				if !ok {
					return nil, &rerr{"type", "concat"}
				}
				out.elems = append(out.elems, x.elems...)
			}
			return out, nil
		case *rlist:
			out := &rlist{elems: append([]rval{}, t.elems...)}
			for _, a := range args[1:] {
				switch x := a.(type) {
				case *rlist:
					out.elems = append(out.elems, x.elems...)
				case rnil:
				default:
					return nil, &rerr{"type", "concat"}
				}
			}
			return out, nil
		}
		return nil, &rerr{"type", "concat"}
	case "aget":
		if len(args) < 2 || len(args) > 3 {
			return nil, &rerr{"arity", "aget"}
		}
		a, ok := args[0].(*rarr)
		i, ok2 := args[1].(int64)
		if !ok || !ok2 {
			return nil, &rerr{"type", "aget"}
		}
		if i < 0 || i >= int64(len(a.elems)) {
			if len(args) == 3 {
				return args[2], nil
			}
			return nil, &rerr{"index", "array index out of bounds"}
		}
		return a.elems[i], nil
	case "aset":
		if err := argn(3); err != nil {
			return nil, err
		}
		a, ok := args[0].(*rarr)
		i, ok2 := args[1].(int64)
		if !ok || !ok2 {
			return nil, &rerr{"type", "aset"}
		}
		if i < 0 || i >= int64(len(a.elems)) {
			return nil, &rerr{"index", "array index out of bounds"}
		}
		a.elems[i] = args[2]
		return rnil{}, nil
	case "hget":
		if len(args) < 2 || len(args) > 3 {
			return nil, &rerr{"arity", "hget"}
		}
		if a, isArr := args[0].(*rarr); isArr {
			return r.applyPrim("aget", append([]rval{a}, args[1:]...))
		}
		h, ok := args[0].(*rhash)
		k, ok2 := keyName(args[1])
		if !ok || !ok2 {
			return nil, &rerr{"type", "hget"}
		}
		if v, present := h.vals[k]; present {
			return v, nil
		}
		if len(args) == 3 {
			return args[2], nil
		}
		return nil, &rerr{"index", "no such key"}
	case "hset":
		if err := argn(3); err != nil {
			return nil, err
		}
		h, ok := args[0].(*rhash)
		k, ok2 := keyName(args[1])
		if !ok || !ok2 {
			return nil, &rerr{"type", "hset"}
		}
		h.set(k, args[2])
		return rnil{}, nil
	case "hdel":
		if err := argn(2); err != nil {
			return nil, err
		}
		h, ok := args[0].(*rhash)
		k, ok2 := keyName(args[1])
		if !ok || !ok2 {
			return nil, &rerr{"type", "hdel"}
		}
		h.del(k)
		return rnil{}, nil
	case "keys":
		if err := argn(1); err != nil {
			return nil, err
		}
		h, ok := args[0].(*rhash)
		if !ok {
			return nil, &rerr{"type", "keys"}
		}
		out := &rarr{}
		for _, k := range h.keys {
			switch k[0] {
			case 'y':
				out.elems = append(out.elems, rsym{k[2:]})
			case 's':
				out.elems = append(out.elems, k[2:])
			case 'i':
				v, _ := strconv.ParseInt(k[2:], 10, 64)
				out.elems = append(out.elems, v)
			}
		}
		return out, nil
	case "str":
		if err := argn(1); err != nil {
			return nil, err
		}
		switch t := args[0].(type) {
		case int64:
			return strconv.FormatInt(t, 10), nil
		case bool:
			return strconv.FormatBool(t), nil
		case string:
			return strconv.Quote(t), nil
		case rnil:
			return "nil", nil
		case rcode:
			return t.n.Render(), nil
		}
		return nil, &rerr{"other", "str of this value is outside the reference language"}
	case "map":
		if err := argn(2); err != nil {
			return nil, err
		}
		switch c := args[1].(type) {
		case *rarr:
			out := &rarr{}
			for _, e := range c.elems {
				v, err := r.applyValue(args[0], []rval{e})
				if err != nil {
					return nil, err
				}
				out.elems = append(out.elems, v)
			}
			return out, nil
		case *rlist:
			out := &rlist{}
			for _, e := range c.elems {
				v, err := r.applyValue(args[0], []rval{e})
				if err != nil {
					return nil, err
				}
				out.elems = append(out.elems, v)
			}
			return out, nil
		case rnil:
			if _, isFn := args[0].(*rclos); isFn {
				return rnil{}, nil
			}
		}
		return nil, &rerr{"type", "map"}
	case "apply":
		if err := argn(2); err != nil {
			return nil, err
		}
		switch c := args[1].(type) {
		case *rarr:
			return r.applyValue(args[0], c.elems)
		case *rlist:
			return r.applyValue(args[0], c.elems)
		case rnil:
			return r.applyValue(args[0], nil) // nil is the empty list
		}
		return nil, &rerr{"type", "apply"}
	case "try":
		// host function that calls back into the evaluator and contains the failure
		if err := argn(1); err != nil {
			return nil, err
		}
		v, err := r.applyValue(args[0], nil)
		if err != nil {
			if err == errRefBudget {
				return nil, err
			}
			if re, ok := err.(*rerr); ok && re.kind == "other" {
				return nil, err
			}
			if _, isCtl := err.(*rctl); isCtl {
				return nil, &rerr{"other", "break/continue through try"}
			}
			r.caught++
			r.trace = append(r.trace, "caught")
			return int64(-1), nil
		}
		return v, nil
	case "func?":
		if err := argn(1); err != nil {
			return nil, err
		}
		switch args[0].(type) {
		case *rclos, rprim:
			return true, nil
		}
		return false, nil
	case "force":
		if err := argn(1); err != nil {
			return nil, err
		}
		return r.force(args[0])
	case "substitute":
		if err := argn(1); err != nil {
			return nil, err
		}
		if t, ok := args[0].(*rthunk); ok {
			if t.expr == nil {
				return t.val, nil
			}
			return rcode{t.expr}, nil
		}
		return args[0], nil
	}
	return nil, &rerr{"other", "reference evaluator: unknown builtin " + name}
}

// rdump mirrors dump() for zygo values.
func rdump(v rval) string {
	var b strings.Builder
	rdumpTo(&b, v)
	return b.String()
}

func rdumpTo(b *strings.Builder, v rval) {
	switch x := v.(type) {
	case int64:
		fmt.Fprintf(b, "i:%d", x)
	case float64:
		if math.IsNaN(x) {
			b.WriteString("f:NaN")
		} else {
			fmt.Fprintf(b, "f:%016x", math.Float64bits(x))
		}
	case string:
		fmt.Fprintf(b, "s:%q", x)
	case bool:
		fmt.Fprintf(b, "b:%v", x)
	case rnil:
		b.WriteString("nil")
	case rsym:
		b.WriteString("y:" + x.name)
	case *rarr:
		b.WriteString("[")
		for i, e := range x.elems {
			if i > 0 {
				b.WriteString(" ")
			}
			rdumpTo(b, e)
		}
		b.WriteString("]")
	case *rlist:
		if len(x.elems) == 0 {
			b.WriteString("nil")
			return
		}
		b.WriteString("(")
		for i, e := range x.elems {
			if i > 0 {
				b.WriteString(" ")
			}
			rdumpTo(b, e)
		}
		b.WriteString(")")
	case *rhash:
		b.WriteString("{hash")
		for _, k := range x.keys {
			b.WriteString(" ")
			switch k[0] {
			case 'y':
				b.WriteString("y:" + k[2:])
			case 's':
				fmt.Fprintf(b, "s:%q", k[2:])
			case 'i':
				b.WriteString("i:" + k[2:])
			}
			b.WriteString("=")
			rdumpTo(b, x.vals[k])
		}
		b.WriteString("}")
	case *rclos, rprim:
		b.WriteString("<fn>")
	case *rthunk:
		b.WriteString("<lazy>")
	case rcode:
		b.WriteString("code:" + x.n.Render())
	default:
		fmt.Fprintf(b, "<%T>", v)
	}
}
