package props

import (
	"encoding/json"
	"fmt"
	"os"
	"strings"
	"testing"
	"time"

	"verif/harness/ev"
)

// A structural shrinker for program cases (rapid's own shrinking works on the
// random bit stream and runs out of time on 7 KB programs). It repeatedly tries
// to replace a subtree by one of its children or by a literal, and to delete
// statements, keeping a change when the failure signature stays the same.

func cloneNode(n *Node) *Node {
	if n == nil {
		return nil
	}
	c := *n
	c.Kids = make([]*Node, len(n.Kids))
	for i, k := range n.Kids {
		c.Kids[i] = cloneNode(k)
	}
	c.Names = append([]string(nil), n.Names...)
	return &c
}

func cloneForms(fs []*Node) []*Node {
	out := make([]*Node, len(fs))
	for i, f := range fs {
		out[i] = cloneNode(f)
	}
	return out
}

// nodePaths lists every node by path (indices from a virtual root whose kids are the forms).
func nodePaths(forms []*Node) [][]int {
	var out [][]int
	var walk func(n *Node, path []int)
	walk = func(n *Node, path []int) {
		out = append(out, append([]int(nil), path...))
		for i, k := range n.Kids {
			walk(k, append(path, i))
		}
	}
	for i, f := range forms {
		walk(f, []int{i})
	}
	return out
}

func nodeAt(forms []*Node, path []int) *Node {
	n := forms[path[0]]
	for _, i := range path[1:] {
		if i >= len(n.Kids) {
			return nil
		}
		n = n.Kids[i]
	}
	return n
}

func setAt(forms []*Node, path []int, repl *Node) {
	if len(path) == 1 {
		forms[path[0]] = repl
		return
	}
	p := nodeAt(forms, path[:len(path)-1])
	p.Kids[path[len(path)-1]] = repl
}

// bodyStart gives the index of the first deletable statement kid of n (or -1).
func bodyStart(n *Node) int {
	switch n.K {
	case "begin", "newScope", "fn", "defn":
		return 0
	case "let", "letseq":
		return len(n.Names)
	case "for":
		return 3
	}
	return -1
}

func shrinkProgram(c progCase, sigOf func(progCase) string) progCase {
	want := sigOf(c)
	if want == "" {
		return c
	}
	best := c
	deadline := time.Now().Add(90 * time.Second)
	try := func(cand progCase) bool {
		if time.Now().After(deadline) {
			return false
		}
		if sigOf(cand) == want {
			best = cand
			return true
		}
		return false
	}
	for round := 0; round < 30; round++ {
		changed := false
		// delete top-level forms
		for i := 0; i < len(best.Forms) && len(best.Forms) > 1; i++ {
			cand := best
			cand.Forms = append(cloneForms(best.Forms[:i]), cloneForms(best.Forms[i+1:])...)
			if try(cand) {
				changed = true
				i--
			}
		}
		paths := nodePaths(best.Forms)
		for pi := 0; pi < len(paths); pi++ {
			path := paths[pi]
			n := nodeAt(best.Forms, path)
			if n == nil {
				continue
			}
			done := false
			// replace by a child
			for ki := range n.Kids {
				cand := best
				cand.Forms = cloneForms(best.Forms)
				setAt(cand.Forms, path, cloneNode(n.Kids[ki]))
				if try(cand) {
					changed, done = true, true
					break
				}
			}
			if done {
				paths = nodePaths(best.Forms)
				pi--
				continue
			}
			// replace by a literal
			if n.K != "int" && n.K != "bool" && n.K != "nil" && n.K != "str" && n.K != "var" && n.K != "key" {
				for _, lit := range []*Node{NInt(0), NBool(false), NNil(), NStr(""), N("arr")} {
					cand := best
					cand.Forms = cloneForms(best.Forms)
					setAt(cand.Forms, path, lit)
					if try(cand) {
						changed, done = true, true
						break
					}
				}
			}
			if done {
				paths = nodePaths(best.Forms)
				pi--
				continue
			}
			// delete body statements
			if bs := bodyStart(n); bs >= 0 {
				for ki := bs; ki < len(n.Kids); ki++ {
					if len(n.Kids)-bs <= 1 {
						break
					}
					cand := best
					cand.Forms = cloneForms(best.Forms)
					m := nodeAt(cand.Forms, path)
					m.Kids = append(m.Kids[:ki:ki], m.Kids[ki+1:]...)
					if try(cand) {
						changed, done = true, true
						break
					}
				}
			}
			if done {
				paths = nodePaths(best.Forms)
				pi--
				continue
			}
			// unwrap trace
			if n.K == "int" && n.I != 0 {
				cand := best
				cand.Forms = cloneForms(best.Forms)
				setAt(cand.Forms, path, NInt(0))
				if try(cand) {
					changed = true
				}
			}
		}
		if !changed {
			break
		}
	}
	return best
}

// TestShrink: VERIF_SHRINK=<replay file of a program case> prints a structurally minimal program.
func TestShrink(t *testing.T) {
	path := os.Getenv("VERIF_SHRINK")
	if path == "" {
		t.Skip("VERIF_SHRINK not set")
	}
	rp, err := ev.LoadReplay(path)
	if err != nil {
		t.Fatal(err)
	}
	fn := replayers[rp.Property+"/"+rp.Sub]
	if fn == nil {
		t.Fatalf("no replayer for %s/%s", rp.Property, rp.Sub)
	}
	// generic over case types: only the field holding the forms is shrunk
	field := os.Getenv("VERIF_SHRINK_FIELD")
	if field == "" {
		field = "forms"
	}
	var whole map[string]json.RawMessage
	if err := json.Unmarshal(rp.Case, &whole); err != nil {
		t.Fatal(err)
	}
	var c progCase
	if err := json.Unmarshal(whole[field], &c.Forms); err != nil {
		t.Fatal(err)
	}
	build := func(pc progCase) json.RawMessage {
		m := map[string]json.RawMessage{}
		for k, v := range whole {
			m[k] = v
		}
		fb, _ := json.Marshal(pc.Forms)
		m[field] = fb
		raw, _ := json.Marshal(m)
		return raw
	}
	sigOf := func(pc progCase) string {
		f, err := fn(build(pc))
		if err != nil || f == nil {
			return ""
		}
		// keep the same symptom, not just the same category
		if o, ok := f.Observed.(string); ok && (strings.HasSuffix(f.Sig, "spurious-error") || strings.HasSuffix(f.Sig, "panic")) {
			return f.Sig + "|" + firstLine(o)
		}
		return f.Sig
	}
	small := shrinkProgram(c, sigOf)
	fmt.Printf("SHRUNK sig=%s\n%s", sigOf(small), RenderProgram(small.Forms))
	raw := build(small)
	f, _ := fn(raw)
	if f != nil {
		fmt.Printf("expected: %v\nobserved: %v\n", f.Expected, f.Observed)
	}
	if out := os.Getenv("VERIF_SHRINK_OUT"); out != "" {
		rp.Case = raw
		rp.Failure = f
		b, _ := json.MarshalIndent(rp, "", " ")
		os.WriteFile(out, b, 0o644)
	}
}
