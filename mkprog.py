#!/usr/bin/env python3
"""mkprog.py <PROP> <name> <sub> '<program text>' '<note>' [extra-json]  -> replays/<PROP>-<name>.json (program case)"""
import json, sys
sys.path.insert(0, '/verif/tools')
from sx2node import program
prop, name, sub, text, note = sys.argv[1:6]
case = {"forms": program(text), "noise": 0}
if len(sys.argv) > 6:
    case.update(json.loads(sys.argv[6]))
json.dump({"property": prop, "sub": sub, "case": case, "seed": 1, "note": note + " | " + text},
          open("/verif/replays/%s-%s.json" % (prop, name), "w"), indent=1)
