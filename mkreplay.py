#!/usr/bin/env python3
"""mkreplay.py <PROP> <name> <sub> '<case json>' '<note>'  -> replays/<PROP>-<name>.json"""
import json, sys
prop, name, sub, case, note = sys.argv[1:6]
json.dump({"property": prop, "sub": sub, "case": json.loads(case), "seed": 1, "note": note},
          open("/verif/replays/%s-%s.json" % (prop, name), "w"), indent=1)
