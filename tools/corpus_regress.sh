#!/bin/sh
# Runs every tests/*.zy of a zygomys tree with the real command-line tool and prints "<file> <exit>" lines.
# usage: corpus_regress.sh <tree> <outfile>      (used to compare the pinned snapshot with the repaired tree)
set -u
TREE=$1; OUT=$2
export GOFLAGS=-mod=mod GOPROXY=off GOSUMDB=off GOTOOLCHAIN=local
GO=/root/go/pkg/mod/golang.org/toolchain@v0.0.1-go1.24.2.linux-amd64/bin/go
BIN=$(mktemp -d)/zygo
(cd "$TREE" && $GO build -o "$BIN" ./cmd/zygo) || exit 2
: > "$OUT"
cd "$TREE"
for f in tests/*.zy; do
  timeout 20 "$BIN" -demo -exitonfail "$f" </dev/null >/tmp/corpus_out.$$ 2>&1
  echo "$f $?" >> "$OUT"
done
rm -rf "$(dirname "$BIN")" /tmp/corpus_out.$$
