#!/usr/bin/env python3
"""Regenerates the table of repaired findings in DESIGN.md (between the FINDINGS markers) from known_findings.txt."""
import re
rows = []
for l in open('/verif/known_findings.txt'):
    if l.startswith('fixed:'):
        m = re.match(r'fixed: property=(C\d+) (\w+) (.*)', l.strip())
        if m:
            txt = re.sub(r'\s*\(replays/[^)]*\)\s*$', '', m.group(3))
            if len(txt) > 210:
                txt = txt[:207] + '...'
            rows.append((m.group(1), m.group(2), txt.replace('|', '/')))
rows.sort(key=lambda r: r[0])
tab = '| prop | commit | what failed |\n|---|---|---|\n' + '\n'.join(f'| {a} | `{b}` | {c} |' for a, b, c in rows)
p = '/verif/DESIGN.md'
s = open(p).read()
i = s.index('<!-- FINDINGS-BEGIN -->') + len('<!-- FINDINGS-BEGIN -->\n')
j = s.index('\n<!-- FINDINGS-END -->')
open(p, 'w').write(s[:i] + tab + s[j:])
print(len(rows), 'fixed entries,', len(set(r[1] for r in rows)), 'distinct commits')
