#!/usr/bin/env python3
"""keep_seed.py <outdir> <seed-id> <caught_by(comma list or 'none')> <note>
Stores a confirmed seeded change under /verif/seeded/<seed-id>/ (patch.diff, demo_test.go, meta.json)."""
import json, os, shutil, sys
out, sid, caught, note = sys.argv[1:5]
d = f"/verif/seeded/{sid}"
os.makedirs(d, exist_ok=True)
shutil.copy(f"{out}/patch.diff", f"{d}/patch.diff")
shutil.copy(f"{out}/demo_test.go", f"{d}/demo_test.go")
meta = json.load(open(f"{out}/meta.json"))
meta.update({
    "seed_id": sid,
    "confirmed": "tools/verify_seed.sh: patch applies to /repo HEAD, package builds, 121-test suite green with the patch, demo test TestSeeded* fails with the patch and passes without it (fresh scratch worktree, removed afterwards)",
    "caught_by": [c for c in caught.split(",") if c and c != "none"],
    "note": note,
    "how_to_run": "git -C /repo apply seeded/%s/patch.diff && ./check <ID> quick ; git -C /repo checkout -- ." % sid,
})
json.dump(meta, open(f"{d}/meta.json", "w"), indent=1)
print("kept", sid, meta["caught_by"])
