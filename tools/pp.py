#!/usr/bin/env python3
"""pretty-print the program of a replay file (development aid)"""
import json,sys
d=json.load(open(sys.argv[1]))
msg=d['failure']['msg']
s=msg[msg.index('program:')+9:]
maxd=int(sys.argv[2]) if len(sys.argv)>2 else 9
cur='';depth=0;lines=[]
instr=False
for ch in s:
    if ch=='"': instr=not instr
    if not instr and ch in '([' :
        if depth<=maxd and ch=='(':
            lines.append(cur); cur='  '*depth
        depth+=1
    cur+=ch
    if not instr and ch in ')]': depth-=1
lines.append(cur)
print('\n'.join(l for l in lines if l.strip()))
print('EXP',str(d['failure'].get('expected'))[:300]); print('OBS',str(d['failure'].get('observed'))[:300])
