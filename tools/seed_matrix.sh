#!/bin/bash
# seed_matrix.sh : applies every kept seeded change to /repo in turn, runs the checks named in its meta.json (quick tier)
# and reports whether each raised a VIOLATION; restores /repo after each. Nothing else may build from /repo meanwhile.
cd /verif
for d in /verif/seeded/*/; do
  id=$(basename $d)
  checks=$(python3 -c "import json;print(' '.join(json.load(open('$d/meta.json'))['caught_by']))")
  if ! git -C /repo apply --check $d/patch.diff 2>/dev/null; then echo "$id STALE-PATCH"; continue; fi
  git -C /repo apply $d/patch.diff
  for c in $checks; do
    out=$(timeout 1500 ./check $c quick 2>&1)
    if echo "$out" | grep -q "^VIOLATION property=$c"; then echo "$id $c CAUGHT"; else echo "$id $c MISSED"; fi
  done
  git -C /repo checkout -- .
  rm -rf replays/new
done
git -C /repo status --short | head -3
