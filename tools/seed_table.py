#!/usr/bin/env python3
"""Regenerates the seeded-changes table of DESIGN.md (between the SEEDTABLE markers) from seeded/*/meta.json."""
import glob, json
rows = []
for d in sorted(glob.glob('/verif/seeded/*/meta.json')):
    m = json.load(open(d))
    summ = (m.get('summary') or '').replace('\n', ' ').replace('|', '/')
    if len(summ) > 170:
        summ = summ[:167] + '...'
    note = (m.get('note') or '')
    first = 'missed at first' if 'issed at first' in note or 'MISSED at first' in note else 'caught as submitted'
    caught = ', '.join(m.get('caught_by', [])) or 'NOT CAUGHT'
    if m.get('obsolete'):
        caught = 'obsolete (neutralised by a later repair, see note in meta.json)'
    rows.append(f"| {m.get('seed_id')} | {summ} | {caught} | {first} |")
tab = '| seed | change | caught by (quick) | first version of the check |\n|---|---|---|---|\n' + '\n'.join(rows)
p = '/verif/DESIGN.md'
s = open(p).read()
i = s.index('<!-- SEEDTABLE-BEGIN -->') + len('<!-- SEEDTABLE-BEGIN -->\n')
j = s.index('\n<!-- SEEDTABLE-END -->')
open(p, 'w').write(s[:i] + tab + s[j:])
print(len(rows), 'seeds')
