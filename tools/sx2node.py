#!/usr/bin/env python3
"""sx2node.py '<program text>'  -> JSON list of zast Nodes (for replay files of program cases).
Supports the core forms used by the program checks."""
import json, re, sys

def tokenize(s):
    return re.findall(r'"(?:[^"\\]|\\.)*"|[()\[\]]|[^\s()\[\]]+', s)

def read(tokens):
    t = tokens.pop(0)
    if t == '(':
        l = []
        while tokens[0] != ')':
            l.append(read(tokens))
        tokens.pop(0)
        return ('list', l)
    if t == '[':
        l = []
        while tokens[0] != ']':
            l.append(read(tokens))
        tokens.pop(0)
        return ('arr', l)
    return ('atom', t)

PRIMS = {"+","-","*","/","mod","<",">","<=",">=","==","!=","not","concat","append","len","first","rest","second","cons","list","array","aget","aset","hget","hset","hdel","keys","map","apply","str","force","substitute"}

def params(arr):
    names = [a[1] for a in arr[1]]
    var = False
    if len(names) >= 2 and names[-2] == '&':
        names = names[:-2] + [names[-1]]
        var = True
    return names, var

def node(x):
    kind, v = x
    if kind == 'atom':
        if re.fullmatch(r'-?\d+', v): return {"k": "int", "i": int(v)}
        if re.fullmatch(r'-?\d+\.\d+', v): return {"k": "float", "f": float(v)}
        if v.startswith('"'): return {"k": "str", "s": json.loads(v)}
        if v in ('true', 'false'): return {"k": "bool", "b": v == 'true'}
        if v == 'nil': return {"k": "nil"}
        if v.endswith(':'): return {"k": "key", "s": v[:-1]}
        return {"k": "var", "s": v}
    if kind == 'arr':
        return {"k": "arr", "kids": [node(e) for e in v]}
    if not v:
        return {"k": "nil"}
    head = v[0]
    if head[0] == 'atom':
        h = head[1]
        rest = v[1:]
        if h in ('def', 'set'):
            return {"k": h, "s": rest[0][1], "kids": [node(rest[1])]}
        if h in ('let', 'letseq'):
            b = rest[0][1]
            names = [b[i][1] for i in range(0, len(b), 2)]
            kids = [node(b[i]) for i in range(1, len(b), 2)] + [node(e) for e in rest[1:]]
            return {"k": h, "names": names, "kids": kids}
        if h in ('begin', 'newScope', 'and', 'or', 'cond'):
            return {"k": h, "kids": [node(e) for e in rest]}
        if h == 'for':
            label = ''
            if rest[0][0] == 'atom':
                label = rest[0][1].rstrip(':')
                rest = rest[1:]
            ctl = rest[0][1]
            n = {"k": "for", "kids": [node(e) for e in ctl] + [node(e) for e in rest[1:]]}
            if label: n["label"] = label
            return n
        if h in ('break', 'continue'):
            n = {"k": h}
            if rest: n["label"] = rest[0][1].rstrip(':')
            return n
        if h == 'fn':
            names, var = params(rest[0])
            n = {"k": "fn", "names": names, "kids": [node(e) for e in rest[1:]]}
            if var: n["var"] = True
            return n
        if h == 'defn':
            names, var = params(rest[1])
            n = {"k": "defn", "s": rest[0][1], "names": names, "kids": [node(e) for e in rest[2:]]}
            if var: n["var"] = True
            return n
        if h == 'trace':
            return {"k": "trace", "kids": [node(rest[0])]}
        if h == 'probe':
            return {"k": "probe", "i": int(rest[0][1])}
        if h == 'assert':
            return {"k": "assert", "kids": [node(rest[0])]}
        if h == 'stop':
            return {"k": "stop", "s": json.loads(rest[0][1])}
        if h == 'hash':
            names = [rest[i][1].rstrip(':') for i in range(0, len(rest), 2)]
            return {"k": "hashlit", "names": names, "kids": [node(rest[i]) for i in range(1, len(rest), 2)]}
        if h in PRIMS:
            return {"k": "prim", "s": h, "kids": [node(e) for e in rest]}
    return {"k": "call", "kids": [node(e) for e in v]}

def program(text):
    toks = tokenize(text)
    forms = []
    while toks:
        forms.append(node(read(toks)))
    return forms

if __name__ == '__main__':
    print(json.dumps(program(sys.argv[1])))
