#!/bin/bash
# verify_seed.sh <outdir> <PROP> [checks...] : confirm a seeded change (compiles, suite green, demo fails with / passes without)
# and run the given checks (default: PROP) in quick tier against it. Prints a summary.
OUT=$1; PROP=$2; shift 2; CHECKS=${@:-$PROP}
export GOFLAGS=-mod=mod GOPROXY=off GOSUMDB=off GOTOOLCHAIN=local
GO=/root/go/pkg/mod/golang.org/toolchain@v0.0.1-go1.24.2.linux-amd64/bin/go
WT=/tmp/vs-$PROP-$$
git -C /repo worktree add -q --detach $WT HEAD || exit 2
cd $WT
if ! git apply --check $OUT/patch.diff 2>/dev/null; then echo "PATCH-DOES-NOT-APPLY"; git -C /repo worktree remove --force $WT; exit 3; fi
git apply $OUT/patch.diff
B=$($GO build ./zygo/ 2>&1 | tail -1); echo "build: ${B:-ok}"
S=$($GO test -vet=off -count=1 ./zygo/ 2>&1 | tail -1); echo "suite-with-patch: $S"
cp $OUT/demo_test.go zygo/zz_seed_demo_test.go
D1=$($GO test -vet=off -count=1 -run 'TestSeeded' ./zygo/ 2>&1 | tail -1); echo "demo-with-patch: $D1"
git apply -R $OUT/patch.diff
D2=$($GO test -vet=off -count=1 -run 'TestSeeded' ./zygo/ 2>&1 | tail -1); echo "demo-without-patch: $D2"
cd /; git -C /repo worktree remove --force $WT
# now the checks
cd /repo && git apply $OUT/patch.diff || { echo "cannot apply to /repo"; exit 4; }
cd /verif
for c in $CHECKS; do
  R=$(timeout 1500 ./check $c quick 2>&1 | grep -v '^KNOWN' | grep -m3 -E "^$c quick|VIOLATION|INCONCLUSIVE" | cut -c1-220)
  echo "check $c: $R"
done
git -C /repo checkout -- . ; git -C /repo status --short | head -3
rm -rf /verif/replays/new
